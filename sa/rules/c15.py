"""C15 — diagrammatic gradients evaluate to the gradient of the evaluation (R15.1–R15.4; engines A, C′, E)."""
import ast
import math
import numpy as np
from ..core import AnalysisError
from ..tables import run_body, as_matrix, NotFoldable, NumMod, X_, Z_, close
from ..objsim import explore, Inst, RaisesError, Unsupported as SimUnsupported, Sym, Sim
from ..generic import instances, same_value
from .. import shape

EXPLANATION = (
    "The product rule and the per-box rules are decided separately. (R15.1) tensor.Diagram.grad has the shape head' >> tail + head "
    ">> tail' with recursion on the tail and the empty sum when the symbol does not occur; jacobian stacks the gradients in order. "
    "(R15.2) every box class that can carry symbols defines or inherits a grad whose first statement returns the typed empty sum "
    "when the symbol does not occur; unsupported cases raise NotImplementedError. (R15.3) the grad methods of the rotation gates are "
    "closed constructor terms: they are lifted from the syntax tree and evaluated in a small reference algebra (scalars, the "
    "class's own closed-form array at a shifted phase, Pauli gates, projectors, >>, @, +), in pure mode as matrices and in mixed "
    "mode as doubled maps conj(M) ⊗ M with the Born rule applied to pure scalars; the value must equal the derivative of the "
    "class's own closed-form array (5-point stencil, error ~1e-10) on sample phases. (R15.4) mixedness: the gradient of a mixed "
    "scalar is a mixed scalar (abstract execution). Not decided: numeric derivatives of arbitrary circuits (they follow from the "
    "product rule and the per-box rules).")

TEN, GATES, CIRC, ZX = "discopy.tensor", "discopy.quantum.gates", "discopy.quantum.circuit", "discopy.quantum.zx"
PHASES = [k / 7.3 for k in (-3, -1, 0, 2, 5)]


def ret_expr(body):
    for st in body:
        if isinstance(st, ast.Return):
            return st.value
    return None


# ---------------------------------------------------------------------------------------------- reference algebra
class V:
    """a circuit value in both semantics: pure matrix (None when it contains a mixed scalar) and mixed superoperator"""
    def __init__(self, pure, mixed, nq):
        self.pure, self.mixed, self.nq = pure, mixed, nq

    @staticmethod
    def gate(M):
        M = np.array(M, dtype=complex)
        nq = int(round(math.log2(len(M))))
        return V(M, np.kron(M.conj(), M), nq)

    @staticmethod
    def scalar(c, is_mixed=False):
        c = complex(c)
        if is_mixed:
            return V(None, np.array([[c]]), 0)
        return V(np.array([[c]]), np.array([[abs(c) ** 2]]), 0)

    def __matmul__(self, o):
        if self.nq and o.nq:
            # tensor of two gates: only the pure semantics is tracked (the doubled layout would need a wire permutation)
            return V(None if self.pure is None or o.pure is None else np.kron(self.pure, o.pure), None, self.nq + o.nq)
        pure = None if self.pure is None or o.pure is None else np.kron(self.pure, o.pure)
        mixed = None if self.mixed is None or o.mixed is None else np.kron(self.mixed, o.mixed)
        return V(pure, mixed, self.nq + o.nq)

    def __rshift__(self, o):
        pure = None if self.pure is None or o.pure is None else o.pure @ self.pure
        mixed = None if self.mixed is None or o.mixed is None else o.mixed @ self.mixed
        return V(pure, mixed, o.nq)

    def __add__(self, o):
        pure = None if self.pure is None or o.pure is None else self.pure + o.pure
        mixed = None if self.mixed is None or o.mixed is None else self.mixed + o.mixed
        return V(pure, mixed, self.nq)

    def tensor(self, *os):
        r = self
        for o in os:
            r = r @ o
        return r


class Raised(Exception):
    pass


class GradFold(ast.NodeVisitor):
    def __init__(self, env):
        self.env = env

    def visit_Constant(self, n):
        return n.value

    def visit_Name(self, n):
        if n.id in self.env:
            return self.env[n.id]
        raise NotFoldable("name " + n.id)

    def visit_Attribute(self, n):
        d = ast.unparse(n)
        if d in self.env:
            return self.env[d]
        base = self.visit(n.value)
        if base is NumMod:
            return getattr(NumMod, n.attr)
        raise NotFoldable("attribute " + d)

    def visit_UnaryOp(self, n):
        v = self.visit(n.operand)
        if isinstance(n.op, ast.USub):
            return -v
        if isinstance(n.op, ast.Not):
            return not v
        raise NotFoldable(ast.unparse(n))

    def visit_BinOp(self, n):
        l, r = self.visit(n.left), self.visit(n.right)
        t = type(n.op)
        ops = {ast.Add: lambda: l + r, ast.Sub: lambda: l - r, ast.Mult: lambda: l * r, ast.Div: lambda: l / r, ast.MatMult: lambda: l @ r, ast.RShift: lambda: l >> r}
        if t not in ops:
            raise NotFoldable(ast.unparse(n))
        return ops[t]()

    def visit_Compare(self, n):
        l, r = self.visit(n.left), self.visit(n.comparators[0])
        t = type(n.ops[0])
        return {ast.NotEq: l != r, ast.Eq: l == r}[t]

    def visit_Call(self, n):
        f = self.visit(n.func)
        args = [self.visit(a) for a in n.args if not isinstance(a, ast.Starred)]
        kw = {k.arg: self.visit(k.value) for k in n.keywords if k.arg}
        return f(*args, **kw)

    def generic_visit(self, n):
        raise NotFoldable("%s: %s" % (type(n).__name__, ast.unparse(n)[:60]))


def eval_grad(ctx, cls, phi, mixed):
    """evaluate cls.grad (resolved along the MRO, following super().grad) as a closed term; returns V or raises Raised"""
    m = ctx.model
    arr = m.lookup(cls, "array")[1]

    def M(p):
        return as_matrix(run_body(arr, {"self.phase": p, "self.data": p}))
    nq = int(round(math.log2(len(M(0.0)))))

    def run(owner_fn, after):
        fn = owner_fn
        env = {"self.phase": phi, "self.modules": NumMod, "Tensor.np": NumMod, "numpy": NumMod, "gradient": 1.0,
               "scalar": lambda c, is_mixed=False: V.scalar(c, is_mixed), "self": V.gate(M(phi)),
               "Z": V.gate(Z_), "X": V.gate(X_), "qubit": 1, "Id": lambda n=0: V.gate(np.eye(2 ** (n if isinstance(n, int) else 1))),
               "_outer_prod_diag": lambda *bits: V.gate(np.diag([1.0 if i == int("".join(map(str, bits)), 2) else 0.0 for i in range(2 ** len(bits))])),
               "complex": complex, "len": len}
        env["type(self)"] = lambda p: V.gate(M(p))

        class _TS(GradFold):
            def visit_Call(self, n):
                src = ast.unparse(n.func)
                if src == "type(self)":
                    return V.gate(M(self.visit(n.args[0])))
                if src == "params.get":
                    return mixed if self.visit(n.args[0]) == "mixed" else self.visit(n.args[1])
                if src == "len" and ast.unparse(n.args[0]) == "self.dom":
                    return nq
                if src == "super().grad":
                    nxt = m.lookup(cls, "grad", after=after)
                    if nxt is None:
                        raise NotFoldable("super().grad not found")
                    return run(nxt[1], nxt[0])
                return super().visit_Call(n)

        def block(body):
            for st in body:
                if isinstance(st, ast.Expr) and isinstance(st.value, ast.Constant):
                    continue
                if isinstance(st, ast.If):
                    t = ast.unparse(st.test)
                    if "free_symbols" in t:
                        continue            # the symbol occurs (the other case is R15.2)
                    if _TS(env).visit(st.test):
                        r = block(st.body)
                    else:
                        r = block(st.orelse)
                    if r is not None:
                        return r
                elif isinstance(st, ast.Assign):
                    name = ast.unparse(st.targets[0])
                    if name == "gradient":
                        continue            # d(phase)/d(var) = 1 for phase = var
                    env[name] = _TS(env).visit(st.value)
                elif isinstance(st, ast.Return):
                    return _TS(env).visit(st.value)
                elif isinstance(st, ast.Raise):
                    raise Raised(ast.unparse(st))
                else:
                    raise NotFoldable("statement " + type(st).__name__)
            return None
        return block(fn.body)
    r = m.lookup(cls, "grad")
    return run(r[1], r[0]), M


def deriv(f, x, h=1e-3):
    return (-f(x + 2 * h) + 8 * f(x + h) - 8 * f(x - h) + f(x - 2 * h)) / (12 * h)


def check_rotation_rules(ctx):
    m = ctx.model
    rot = m.cls(GATES + ".Rotation")
    # the helper the controlled rotations use for |b><b| (read as that projector by the evaluation below)
    op = m.functions.get(GATES + "._outer_prod_diag")
    if op is not None:
        ctx.analysed(GATES + "._outer_prod_diag")
        shape.match(ctx, "R15.3", GATES + "._outer_prod_diag", ret_expr(op.body), "Bra(*bitstring) >> Ket(*bitstring)", {op.args.vararg.arg if op.args.vararg else "bitstring": "bitstring"}, mod=GATES, node=op,
                    sig="projector", required="the projector |b><b|: the effect first, the state after it")
    for c in sorted(m.subclasses(rot, strict=True), key=lambda k: k.q):
        r = m.lookup(c, "grad")
        ctx.analysed(c.q + ".grad")
        for mixed in (False, True):
            cname = "%s.grad[mixed=%s]" % (c.q, mixed)
            bad, raised = None, None
            try:
                for phi in PHASES:
                    try:
                        val, M = eval_grad(ctx, c, phi, mixed)
                    except Raised as e:
                        raised = str(e)
                        break
                    except (ValueError, TypeError) as e:            # shapes that do not compose / add, operations circuits do not have: the term cannot be built
                        bad = "the gradient term cannot be built: %s" % str(e)[:120]
                        break
                    if mixed:
                        want = deriv(lambda p: np.kron(M(p).conj(), M(p)), phi)
                        got = val.mixed
                    else:
                        want = deriv(M, phi)
                        got = val.pure
                    if got is None or got.shape != want.shape or not np.allclose(got, want, atol=1e-6):
                        bad = "at φ = %s the gradient term evaluates to %s, the derivative of the %s evaluation is %s" % (
                            round(phi, 3), None if got is None else np.round(got, 3).tolist(), "mixed (doubled)" if mixed else "pure", np.round(want, 3).tolist())
                        break
            except NotFoldable as e:
                raise AnalysisError("%s outside the foldable vocabulary: %s" % (cname, e))
            if raised is not None:
                ctx.ob("R15.2", cname, "NotImplementedError" in raised, found=raised, required="unsupported modes raise NotImplementedError", mod=r[0].mod, node=r[1], sig="raises")
            else:
                ctx.ob("R15.3", cname, bad is None, found=bad or "equals the derivative of the closed-form array on %d phases" % len(PHASES),
                       required="d/dφ of the class's own evaluation (pure: the matrix; mixed: conj(M) ⊗ M)", mod=r[0].mod, node=r[1], sig="rule-" + ("mixed" if mixed else "pure"))


def check_product_rule(ctx):
    m = ctx.model
    q = TEN + ".Diagram.grad"
    fn = m.func(q)
    ctx.analysed(q, TEN + ".Diagram.jacobian", CIRC + ".Circuit.jacobian")
    g = fn.body[0] if isinstance(fn.body[0], ast.If) else fn.body[1]
    ok = isinstance(g, ast.If) and ast.unparse(g.test) == "var not in self.free_symbols" and ast.unparse(g.body[-1]) == "return self.sum([], self.dom, self.cod)"
    ctx.ob("R15.1", q + ":no-dependence", ok, found=ast.unparse(g)[:100], required="the typed empty sum when the symbol does not occur", mod=TEN, node=g, sig="empty-sum")
    loc = shape.single_assignments(fn.body)
    ctx.need({"t1", "t2"} <= set(loc), "tensor.Diagram.grad does not bind t1 and t2")
    split = next((s for s in fn.body if isinstance(s, ast.Assign) and isinstance(s.targets[0], ast.Tuple) and len(s.targets[0].elts) == 4), None)
    ctx.need(split is not None, "tensor.Diagram.grad does not split off the first layer")
    shape.match(ctx, "R15.1", q + ":split", split.value, "tuple(self.layers[0]) + (self[1:],)", {}, mod=TEN, node=split, sig="split", required="first layer (left, box, right) and the tail self[1:]")
    names = {x.id: y for x, y in zip(split.targets[0].elts, ("left", "box", "right", "tail"))}
    shape.match(ctx, "R15.1", q + ":head'", loc["t1"], "self.id(left) @ box.grad(var, **params) @ self.id(right) >> tail", names, mod=TEN, node=fn, sig="t1",
                required="(whiskered gradient of the first box) >> tail")
    shape.match(ctx, "R15.1", q + ":tail'", loc["t2"], "self.id(left) @ box @ self.id(right) >> tail.grad(var, **params)", names, mod=TEN, node=fn, sig="t2",
                required="first layer >> gradient of the tail (recursion)")
    shape.match(ctx, "R15.1", q + ":sum", ret_expr(fn.body[-1:]), "t1 + t2", {}, mod=TEN, node=fn, sig="sum")
    # jacobians
    jf = m.func(TEN + ".Diagram.jacobian")
    loop = next((s for s in jf.body if isinstance(s, ast.For)), None)
    ok = loop is not None and ast.unparse(loop.iter) == "enumerate(variables)" and any("onehot[i] = 1" == ast.unparse(s) for s in loop.body) and \
        any(ast.unparse(s) == "result += Box(var, Dim(1), dim, onehot) @ self.grad(var)" for s in loop.body)
    ctx.ob("R15.1", TEN + ".Diagram.jacobian", ok, found=ast.unparse(loop)[:160] if loop else None, required="for i, var in enumerate(variables): result += onehot_i @ grad(var)", mod=TEN,
           node=jf, sig="jacobian")
    cj = m.func(CIRC + ".Circuit.jacobian")
    shape.match(ctx, "R15.1", CIRC + ".Circuit.jacobian", ret_expr(cj.body[-1:]), "sum((Digits(i, dim=len(variables)) @ self.grad(x, **params) for i, x in enumerate(variables)))", {},
                mod=CIRC, node=cj, sig="circuit-jacobian", required="the gradients in the order of the variables, tagged by Digits(i)")
    early = [s for s in cj.body if isinstance(s, ast.If)]
    tests = {ast.unparse(s.test): s for s in early}
    e0, e1 = tests.get("not variables"), tests.get("len(variables) == 1")
    shape.match(ctx, "R15.1", CIRC + ".Circuit.jacobian:none", ret_expr(e0.body) if e0 else None, "Sum([], self.dom, self.cod)", {}, mod=CIRC, node=e0 or cj, sig="circuit-jacobian-none",
                required="no variable: the empty sum typed like the circuit")
    if e1 is not None:
        shape.match(ctx, "R15.1", CIRC + ".Circuit.jacobian:one", ret_expr(e1.body), ["self.grad(variables[0], **params)", "self.grad(variables[-1], **params)"], {}, mod=CIRC, node=e1, sig="circuit-jacobian-one", required="one variable: its gradient")
    ctx.ob("R15.1", CIRC + ".Circuit.jacobian:cases", set(tests) <= {"not variables", "len(variables) == 1"}, found=sorted(tests), required="only the empty and the one-variable case leave early", mod=CIRC, node=cj,
           sig="circuit-jacobian-cases")
    # the entry-wise layer: arrays of sympy expressions
    tj = m.func(TEN + ".Tensor.jacobian")
    ctx.analysed(TEN + ".Tensor.jacobian", TEN + ".Tensor.grad", TEN + ".Box.grad")
    pre = [s for s in tj.body if isinstance(s, ast.Assign)]
    shape.match_stmts(ctx, "R15.1", TEN + ".Tensor.jacobian:prelude", pre, ["dim = Dim(len(variables) or 1)", "result = Tensor.zeros(self.dom, dim @ self.cod)"], mod=TEN, node=tj, sig="tensor-jacobian-prelude",
                      required="zeros of type dom -> Dim(number of variables) @ cod")
    lp = next((s for s in tj.body if isinstance(s, ast.For)), None)
    ctx.need(lp is not None and isinstance(lp.target, ast.Tuple) and len(lp.target.elts) == 2, "Tensor.jacobian: no loop over the variables")
    shape.match(ctx, "R15.1", TEN + ".Tensor.jacobian:order", lp.iter, "enumerate(variables)", {}, mod=TEN, node=lp, sig="tensor-jacobian-order")
    NJ = {lp.target.elts[0].id: "i", lp.target.elts[1].id: "var"}
    shape.match_stmts(ctx, "R15.1", TEN + ".Tensor.jacobian:row", lp.body, ["onehot = numpy.zeros(dim or (1,))", "onehot[i] = 1", "result += Tensor(Dim(1), dim, onehot) @ self.grad(var)"], NJ, mod=TEN, node=lp,
                      sig="tensor-jacobian-row", exact=True, required="the i-th basis vector of the new axis tensored with the gradient in the i-th variable")
    shape.match(ctx, "R15.1", TEN + ".Tensor.jacobian:result", ret_expr(tj.body), "result", {}, mod=TEN, node=tj, sig="tensor-jacobian-result")
    djl = next((s for s in jf.body if isinstance(s, ast.For)), None)
    if djl is not None and isinstance(djl.target, ast.Tuple) and len(djl.target.elts) == 2:
        shape.match_stmts(ctx, "R15.1", TEN + ".Diagram.jacobian:row", djl.body, ["onehot = numpy.zeros(dim or (1,))", "onehot[i] = 1", "result += Box(var, Dim(1), dim, onehot) @ self.grad(var)"],
                          {djl.target.elts[0].id: "i", djl.target.elts[1].id: "var"}, mod=TEN, node=djl, sig="diagram-jacobian-row", exact=True,
                          required="the i-th basis vector of the new axis (as a box) tensored with the gradient in the i-th variable")
    shape.match(ctx, "R15.1", TEN + ".Diagram.jacobian:result", ret_expr(jf.body), "result", {}, mod=TEN, node=jf, sig="diagram-jacobian-result")
    shape.match_stmts(ctx, "R15.1", TEN + ".Diagram.jacobian:prelude", [s for s in jf.body if isinstance(s, ast.Assign)], ["dim = Dim(len(variables) or 1)", "result = Sum([], self.dom, dim @ self.cod)"], mod=TEN, node=jf,
                      sig="diagram-jacobian-prelude", required="the empty sum of type dom -> Dim(number of variables) @ cod")
    tg = m.func(TEN + ".Tensor.grad")
    shape.match(ctx, "R15.1", TEN + ".Tensor.grad", ret_expr(tg.body), ["self.map(lambda x: getattr(x, 'diff', lambda _, **__: 0)(var, **params))", "self.map(lambda x: getattr(x, 'diff', lambda *_, **__: 0)(var, **params))"],
                {tg.args.args[1].arg: "var"}, mod=TEN, node=tg, sig="tensor-grad", required="entry-wise derivative (0 for plain numbers)")
    bg = m.func(TEN + ".Box.grad")
    call = ret_expr(bg.body)
    fk = next((kk.value for kk in call.keywords if kk.arg == "func"), None) if isinstance(call, ast.Call) and ast.unparse(call.func) == "self.bubble" else None
    shape.match(ctx, "R15.1", TEN + ".Box.grad:func", fk, ["lambda x: getattr(x, 'diff', lambda _: 0)(var)", "lambda x: getattr(x, 'diff', lambda _, **__: 0)(var)"], {bg.args.args[1].arg: "var"}, mod=TEN, node=bg,
                sig="box-grad", required="the box in a bubble that differentiates every entry (0 for plain numbers)")
    sg = m.func(CIRC + ".Sum.grad")
    shape.match(ctx, "R15.1", CIRC + ".Sum.grad", ret_expr(sg.body), "sum((circuit.grad(var, **params) for circuit in self.terms))", {}, mod=CIRC, node=sg, sig="sum-grad",
                required="the gradient of a sum is the sum of the gradients")


def check_totality(ctx):
    m = ctx.model
    n = 0
    for c in m.concrete_boxes():
        if c.mod not in (TEN, CIRC, GATES, ZX):
            continue
        if m.cls("discopy.cat.Sum") in m.mro(c) or c.name in ("Tensor",):
            continue
        r = m.lookup(c, "grad")
        if r is None or not isinstance(r[1], ast.FunctionDef):
            continue
        if m.cls("discopy.cat.Box") not in m.mro(r[0]):
            continue        # a box without its own rule falls back on the diagram rule: only for boxes that cannot carry symbols
        fn = r[1]
        first = next((s for s in fn.body if not (isinstance(s, ast.Expr) and isinstance(s.value, ast.Constant))), None)
        ok = isinstance(first, ast.If) and ast.unparse(first.test) == "var not in self.free_symbols" and isinstance(first.body[-1], ast.Return) and \
            ast.unparse(first.body[-1].value) in ("Sum([], self.dom, self.cod)", "self.sum([], self.dom, self.cod)")
        if r[0].q in (TEN + ".Box", TEN + ".Bubble"):
            ok = True           # tensor boxes differentiate through a bubble (entry-wise diff): defined for every box
        ctx.ob("R15.2", "%s.grad" % c.q, ok, found=ast.unparse(first)[:90] if first is not None else None, required="`if var not in self.free_symbols: return Sum([], self.dom, self.cod)` first",
               mod=r[0].mod, node=fn, sig="guard", trivial=True)
        n += 1
    return n


def check_scalars(ctx):
    """R15.4: the gradient of a scalar keeps its mixedness; it differentiates the evaluated value (array[0])"""
    m = ctx.model
    for cname in ("Scalar", "MixedScalar", "Sqrt"):
        c = m.cls("%s.%s" % (GATES, cname))
        r = m.lookup(c, "grad")
        bad, cases = {}, 0
        try:
            for label, build in instances(m, c):
                for mode in (True, False):
                    def run(sim, build=build, mode=mode):
                        x = build(sim)
                        sim.oracle.setdefault("in:%r in %r" % (Sym("var"), x.attrs.get("_free_symbols")), True)
                        y = sim.apply(sim.getattr(x, "grad", None, c.mod), [Sym("var")], {"mixed": mode}, None, c.mod, x)
                        return x, y
                    for oracle, res, sim in explore(m, run):
                        if isinstance(res, RaisesError):
                            continue
                        x, y = res
                        if not isinstance(y, Inst) or y.cls.name == "Sum":
                            continue
                        cases += 1
                        if not same_value(sim, x.attrs.get("_mixed"), y.attrs.get("_mixed")) and x.attrs.get("_mixed") is True:
                            bad.setdefault("mixedness", "gradient of a mixed scalar [%s] has is_mixed=%r" % (label, y.attrs.get("_mixed")))
        except SimUnsupported as e:
            raise AnalysisError("%s.grad outside the recognised idioms: %s" % (c.q, e))
        ctx.need(cases > 0, "no gradient case of %s could be executed" % c.q)
        ctx.ob("R15.4", c.q + ".grad:mixedness", not bad, found=bad.get("mixedness", "mixedness kept in %d cases" % cases), required="the gradient of a mixed scalar is a mixed scalar",
               mod=r[0].mod, node=r[1], sig="scalar-mixedness")
        ctx.analysed(c.q + ".grad")
    # pure scalars in mixed mode: a pure scalar z counts as |z|^2 inside a mixed evaluation, so its gradient there must be mixed
    c = m.cls(GATES + ".Scalar")
    r = m.lookup(c, "grad")
    verdict = None
    for label, build in instances(m, c):
        if "is_mixed=False" not in label:
            continue
        def run(sim, build=build):
            x = build(sim)
            sim.oracle.setdefault("in:%r in %r" % (Sym("var"), x.attrs.get("_free_symbols")), True)
            return x, sim.apply(sim.getattr(x, "grad", None, c.mod), [Sym("var")], {"mixed": True}, None, c.mod, x)
        for oracle, res, sim in explore(m, run):
            if isinstance(res, RaisesError):
                continue
            x, y = res
            if isinstance(y, Inst) and y.cls.name != "Sum":
                verdict = y.attrs.get("_mixed") is True
                ydata = y.attrs.get("_data")
    ctx.need(verdict is not None, "Scalar.grad could not be executed for a pure scalar in mixed mode")
    ctx.ob("R15.4", GATES + ".Scalar.grad:mode", verdict, found="a pure scalar's gradient in mixed mode is %s" % ("mixed" if verdict else "the pure scalar z' (evaluated as |z'|^2), built as %s with data %r" % (y.cls.name, ydata)),
           required="d|z|^2/dφ = 2 Re(conj(z) z') as a mixed scalar (default mode of Circuit.grad is mixed)", mod=r[0].mod, node=r[1], sig="scalar-mode")
    # the helpers the gradient rules build their factors with
    for hname, spec in (("scalar", "Scalar(expr, is_mixed=is_mixed)"), ("sqrt", "Sqrt(expr)")):
        hf = m.functions.get("%s.%s" % (GATES, hname))
        ctx.need(hf is not None, "gates.%s not found" % hname)
        ctx.analysed("%s.%s" % (GATES, hname))
        names = {hf.args.args[0].arg: "expr"}
        if len(hf.args.args) > 1:
            names[hf.args.args[1].arg] = "is_mixed"
        shape.match(ctx, "R15.4", "%s.%s" % (GATES, hname), ret_expr(hf.body), spec, names, mod=GATES, node=hf, sig="helper-" + hname, required="the helper builds the scalar it is asked for (the mixedness flag is passed on)")
        if hname == "scalar":
            d = hf.args.defaults
            ctx.ob("R15.4", "%s.scalar:default" % GATES, len(hf.args.args) == 2 and len(d) == 1 and isinstance(d[0], ast.Constant) and d[0].value is False, found=ast.unparse(hf.args), required="pure unless asked otherwise",
                   mod=GATES, node=hf, sig="helper-scalar-default")
    fn = m.func(GATES + ".Scalar.grad")
    rv = ret_expr(fn.body[-1:])
    if rv is not None and "self.data.diff(" in ast.unparse(rv):
        ctx.ob("R15.4", GATES + ".Scalar.grad:value", False, found=ast.unparse(rv), required="differentiates the evaluated value array[0], not the raw data (Sqrt evaluates to data ** .5)",
               mod=GATES, node=fn, sig="scalar-value-raw")
        return
    shape.match(ctx, "R15.4", GATES + ".Scalar.grad:value", ret_expr(fn.body[-1:]),
                ["Scalar(self.array[0].diff(var), is_mixed=self.is_mixed)", "Scalar(self.array[0].diff(var), name=self._name, is_mixed=self.is_mixed)"], {}, mod=GATES, node=fn,
                sig="scalar-value", required="differentiates the evaluated value array[0] (so that sqrt differentiates the square root)")


def check_spiders(ctx):
    """the gradient of a ZX spider against the standard interpretation used by C16/C17 (Z(φ) = |0..0><0..0| + e^{2iπφ}|1..1><1..1|)"""
    from ..zxref import FoldZX, BASE, Z as RZ, X as RX, scalar as rscalar, T
    m = ctx.model
    fn = m.func(ZX + ".Spider.grad")
    ctx.analysed(ZX + ".Spider.grad")
    for colour, ref in (("Z", RZ), ("X", RX)):
        bads = []
        for (mm, nn) in ((1, 1), (1, 2), (2, 1)):
            bad = None
            for phi in PHASES:
                env = dict(BASE, Scalar=rscalar, gradient=1.0, pi=math.pi)
                env.update({"self.phase": phi, "self.dom": mm * [0], "self.cod": nn * [0], "type(self)": ref, "complex": complex})

                class _F(FoldZX):
                    def visit_Call(self, n):
                        if ast.unparse(n.func) == "type(self)":
                            return ref(*[self.visit(a) for a in n.args])
                        return super().visit_Call(n)
                term = None
                try:
                    for st in fn.body:
                        if isinstance(st, ast.If) and "free_symbols" in ast.unparse(st.test):
                            continue
                        if isinstance(st, ast.Assign) and ast.unparse(st.targets[0]) == "gradient":
                            continue
                        if isinstance(st, ast.Return):
                            term = _F(env).visit(st.value)
                except KeyError as e:
                    raise AnalysisError("zx.Spider.grad outside the foldable vocabulary: %s" % e)
                ctx.need(isinstance(term, T), "zx.Spider.grad does not return a closed term")
                want = deriv(lambda p: ref(mm, nn, p).M, phi)
                if (term.m, term.n) != (mm, nn):
                    bad = "%s(%d, %d, φ).grad has %d inputs and %d outputs" % (colour, mm, nn, term.m, term.n)
                    break
                if not np.allclose(term.M, want, atol=1e-6):
                    bad = "%s(%d, %d, φ).grad at φ = %s denotes %s, the derivative of the spider is %s" % (colour, mm, nn, round(phi, 3), np.round(term.M, 3).tolist(), np.round(want, 3).tolist())
                    break
            if bad:
                bads.append(bad)
        # every arity is reported (not only the first that fails): what is found identifies the defect, so another one at the same place is not mistaken for it
        ctx.ob("R15.3", "%s.Spider.grad[%s]" % (ZX, colour), not bads, found="; ".join(bads) or "equals the derivative", required="d/dφ of the spider under the standard interpretation",
               mod=ZX, node=fn, sig="spider-" + colour)


def methods_of(m, mod):
    for c in sorted(m.classes.values(), key=lambda c: c.q):
        if c.mod == mod:
            for name, (st, kind) in sorted(c.methods.items()):
                yield "%s.%s" % (c.q, name), st
    for q, fn in sorted(m.functions.items()):
        if q.startswith(mod + ".") and q.count(".") == mod.count(".") + 1:
            yield q, fn


def check_inner_derivative(ctx):
    """R15.3: the factor `gradient` every rotation / spider rule multiplies by is the derivative of the phase in the symbol (chain rule), cast to a number exactly when it has no symbol left"""
    m = ctx.model
    n = 0
    for mod in (GATES, ZX):
        for q, fn in methods_of(m, mod):
            if not isinstance(fn, ast.FunctionDef) or fn.name != "grad":
                continue
            asg = [s for s in ast.walk(fn) if isinstance(s, ast.Assign) and ast.unparse(s.targets[0]) == "gradient"]
            if not asg:
                continue
            n += 1
            shape.match_stmts(ctx, "R15.3", q + ":inner-derivative", asg, ["gradient = self.phase.diff(var)", "gradient = complex(gradient) if not gradient.free_symbols else gradient"],
                              {fn.args.args[0].arg: "self", fn.args.args[1].arg: "var"}, mod=mod, node=asg[0], sig="inner-derivative", exact=True,
                              required="d(phase)/d(var); turned into a complex number when (and only when) no symbol is left in it")
    ctx.need(n >= 5, "fewer than 5 gradient rules with an inner derivative found (%d)" % n)


def check_forwarding(ctx):
    """R15.5: the options of a gradient (`mixed=`) reach every nested gradient; fallbacks accept them; evaluated arrays are not re-daggered"""
    m = ctx.model
    n = 0
    for mod in (CIRC, GATES, ZX):
        for q, fn in methods_of(m, mod):
            if not isinstance(fn, ast.FunctionDef) or fn.name not in ("grad", "jacobian") or fn.args.kwarg is None:
                continue
            kw = fn.args.kwarg.arg
            for c in ast.walk(fn):
                if isinstance(c, ast.Call) and isinstance(c.func, ast.Attribute) and c.func.attr in ("grad", "jacobian"):
                    fwd = any(k.arg is None and isinstance(k.value, ast.Name) and k.value.id == kw for k in c.keywords)
                    ctx.ob("R15.5", "%s:%s" % (q, ast.unparse(c.func)), fwd, found=ast.unparse(c), required="the nested gradient receives **%s (the mode `mixed=` selects which gradient is taken)" % kw,
                           mod=mod, node=c, sig="forward:" + ast.unparse(c.func))
                    n += 1
    ctx.need(n >= 9, "fewer than 9 nested gradient calls found in the quantum layer (%d)" % n)
    # every gradient rule reads the mode with the same default: the parameter-shift (mixed) gradient unless mixed=False is asked for
    modes = []
    for mod in (GATES, CIRC, ZX):
        for q, fn in methods_of(m, mod):
            if isinstance(fn, ast.FunctionDef) and fn.name in ("grad", "jacobian"):
                for c in ast.walk(fn):
                    if isinstance(c, ast.Call) and isinstance(c.func, ast.Attribute) and c.func.attr == "get" and c.args and isinstance(c.args[0], ast.Constant) and c.args[0].value == "mixed":
                        modes.append((q, c, ast.unparse(c.args[1]) if len(c.args) > 1 else "None"))
    ctx.need(len(modes) >= 4, "fewer than 4 gradient rules read the mode (%d)" % len(modes))
    for q, c, dflt in modes:
        ctx.ob("R15.5", q + ":default-mode", dflt == "True", found="params.get('mixed', %s)" % dflt, required="params.get('mixed', True) in every gradient rule: with no mode given all rules take the same (mixed) gradient, "
               "and rules without a mixed form refuse instead of silently switching to amplitudes", mod=q.rsplit(".", 2)[0], node=c, sig="default-mode", trivial=True)
    # fallbacks taken through getattr(x, name, <lambda>)(args) must bind the arguments of the call
    k = 0
    for mod in (TEN, GATES, CIRC, ZX):
        for q, fn in methods_of(m, mod):
            if not isinstance(fn, ast.FunctionDef) or fn.name not in ("grad", "subs", "jacobian"):
                continue
            for c in ast.walk(fn):
                if isinstance(c, ast.Call) and isinstance(c.func, ast.Call) and ast.unparse(c.func.func) == "getattr" and len(c.func.args) == 3 and isinstance(c.func.args[2], ast.Lambda):
                    lam = c.func.args[2].args
                    npos = len([a for a in c.args if not isinstance(a, ast.Starred)])
                    star = any(isinstance(a, ast.Starred) for a in c.args)
                    dstar = any(kk.arg is None for kk in c.keywords)
                    named = [kk.arg for kk in c.keywords if kk.arg]
                    ok = (len(lam.args) - len(lam.defaults) <= npos or star) and (npos <= len(lam.args) or lam.vararg is not None) and (not star or lam.vararg is not None or True) \
                        and (not dstar or lam.kwarg is not None) and all(x in [a.arg for a in lam.args + lam.kwonlyargs] or lam.kwarg is not None for x in named)
                    ctx.ob("R15.5", "%s:fallback[%s]" % (q, ast.unparse(c.func.args[1])), ok, found="lambda %s called as (%s)" % (ast.unparse(lam), ", ".join(ast.unparse(a) for a in c.args + [kk for kk in c.keywords])),
                           required="the fallback for entries without the method accepts the same arguments (plain numbers differentiate to 0 under every option)", mod=mod, node=c, sig="fallback:" + ast.unparse(c.func.args[1]))
                    k += 1
    ctx.need(k >= 2, "fewer than 2 getattr fallbacks found in Tensor.grad / subs (%d)" % k)
    # ClassicalGate.grad rebuilds from the evaluated array: the dagger is already applied
    q = GATES + ".ClassicalGate.grad"
    fn = m.func(q)
    ctx.analysed(q)
    ret = [r for r in fn.body if isinstance(r, ast.Return)]
    ctx.need(bool(ret) and isinstance(ret[-1].value, ast.Call), "ClassicalGate.grad does not end with a constructor call")
    call = ret[-1].value
    data = shape.inline(call.args[3], fn.body) if len(call.args) >= 4 else next((shape.inline(kk.value, fn.body) for kk in call.keywords if kk.arg == "data"), None)
    from_eval = data is not None and "self.eval()" in ast.unparse(data)
    flag = call.args[4] if len(call.args) >= 5 else next((kk.value for kk in call.keywords if kk.arg == "_dagger"), None)
    flag_ok = flag is None or (isinstance(flag, ast.Constant) and flag.value is False)
    ctx.ob("R15.5", q + ":evaluated-array", (not from_eval) or flag_ok, found=ast.unparse(call), required="a gate rebuilt from self.eval() (where the functor has already applied the dagger) is not flagged as a dagger again",
           mod=GATES, node=call, sig="classical-grad-flag")
    typ = [ast.unparse(a) for a in call.args[1:3]] if len(call.args) >= 3 else [ast.unparse(next((kk.value for kk in call.keywords if kk.arg == k), ast.Constant(None))) for k in ("dom", "cod")]
    ctx.ob("R15.5", q + ":type", typ == ["self.dom", "self.cod"], found=typ, required="the gradient of a gate has the gate's type: (self.dom, self.cod)", mod=GATES, node=call, sig="classical-grad-type")
    g0 = next((s for s in fn.body if isinstance(s, ast.If)), None)
    shape.match(ctx, "R15.5", q + ":no-dependence", ret_expr(g0.body) if g0 is not None else None, "Sum([], self.dom, self.cod)", {}, mod=GATES, node=g0 or fn, sig="classical-grad-empty",
                required="the empty sum typed like the gate")
    if data is not None:
        shape.match(ctx, "R15.5", q + ":data", data, "self.eval().grad(var, **params).array", {fn.args.args[1].arg: "var", fn.args.kwarg.arg if fn.args.kwarg else "params": "params"}, mod=GATES, node=call,
                    sig="classical-grad-data", required="the entry-wise derivative of the evaluated array")


def check_bubble_chain_rule(ctx):
    """R15.1: the gradient of a tensor bubble f(g) is f'(g) * g' entry-wise: copy the input, apply the bubble of the derivative of f AROUND THE INSIDE next to the
    gradient of the inside, multiply"""
    m = ctx.model
    q = TEN + ".Bubble.grad"
    fn = m.func(q)
    ctx.analysed(q)
    r = ret_expr(fn.body)
    var = fn.args.args[1].arg
    shape.match(ctx, "R15.1", q + ":chain-rule", r, "Spider(1, 2, dim=self.dom) >> self.inside.bubble(func=lambda x: self.func(tmp).diff(tmp).subs(tmp, x), drawing_name=name.format(self.drawing_name, var)) "
                "@ self.inside.grad(var) >> Spider(2, 1, dim=self.cod)", {var: "var"}, mod=TEN, node=fn, sig="bubble-chain-rule",
                required="copy >> (bubble of f' around the inside) @ (gradient of the inside) >> multiply: f'(g) * g'")


def check(ctx):
    ctx.rule("R15.1", "product rule: grad = head' >> tail + head >> tail' with recursion on the tail; empty sum without dependence; jacobians in the order of the variables")
    ctx.rule("R15.2", "totality: every symbol-carrying box class has a grad guarded by the free-symbol test; unsupported modes raise NotImplementedError")
    ctx.rule("R15.3", "per-gate rules: the gradient term of each rotation class evaluates (pure / mixed) to the derivative of the class's own closed-form array")
    ctx.rule("R15.4", "scalars: the gradient keeps mixedness and differentiates the evaluated value")
    ctx.rule("R15.5", "options and flags: **params reach every nested gradient, getattr fallbacks bind the call, evaluated arrays are not re-daggered")
    ctx.attempt(check_product_rule, ctx)
    ctx.attempt(check_totality, ctx)
    ctx.attempt(check_rotation_rules, ctx)
    ctx.attempt(check_scalars, ctx)
    ctx.attempt(check_spiders, ctx)
    ctx.attempt(check_inner_derivative, ctx)
    ctx.attempt(check_forwarding, ctx)
    ctx.attempt(check_bubble_chain_rule, ctx)
    ctx.rule("R15.6", "the gradient of a tensor box is a bubble around it: bubbles are typed like their inside and evaluated by applying the function to the inside (C09 R09.7, R09.2)")
    try:
        ctx.depend("R15.6", "C09", "Box.grad returns self.bubble(func=...): the bubble must have the type of the box and the options must reach the Bubble class", rules={"R09.7"}, mod="discopy.tensor")
    except AnalysisError:
        if not any(not o.ok for o in ctx.obs):
            raise
    ctx.floor("R15.5", 17)
    ctx.floor("R15.1", 8)
    ctx.floor("R15.2", 12)
    ctx.floor("R15.3", 9)
    ctx.floor("R15.4", 4)
    ctx.not_decided += ["numeric derivative of arbitrary diagrams (product rule + per-box rules imply it)", "gradients of ZX spiders (see known findings)",
                        "gradients of symbolic pure scalars in mixed mode"]
