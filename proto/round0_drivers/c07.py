"""Prototype R07.1 (follow_wire split), R07.2 (yankable predicate), R07.3/4 (gap accounting, parallel deletion), direction table."""
import ast, sys
from .lin import Lin, Facts
from .words import Seq, Atom
from .beval import Evaluator, Obj, Box, Closure, Unsupported, Undecided
from .model import Model


def cond_lins(ev, test, env):
    """a conjunction of linear comparisons -> sorted list of Lin (each >= 0); None if not of that shape"""
    parts = test.values if isinstance(test, ast.BoolOp) and isinstance(test.op, ast.And) else [test]
    out = []
    for p in parts:
        if not isinstance(p, ast.Compare):
            return None
        vals = [ev.ev(v, env) for v in [p.left] + p.comparators]
        for op, a, b in zip(p.ops, vals, vals[1:]):
            d = Lin.of(a) - Lin.of(b)
            t = type(op)
            out.append({ast.GtE: d, ast.Gt: d - 1, ast.LtE: -d, ast.Lt: -d - 1}.get(t))
            if t in (ast.Eq, ast.NotEq):
                out[-1] = ("eq" if t is ast.Eq else "ne", d if d.key() >= (-d).key() else -d)
    return sorted(out, key=repr)


def inner(fn, name):
    for n in ast.walk(fn):
        if isinstance(n, ast.FunctionDef) and n.name == name:
            return n
    raise SystemExit("ANALYSIS-ERROR: inner function %s not found" % name)


def check(out=print, root="/repo/discopy"):
    M = Model(root)
    top = M.func("discopy.rewriting.snake_removal")
    fails = []
    # ---------------- R07.1 follow_wire
    fw = inner(top, "follow_wire")
    loop = next(s for s in fw.body if isinstance(s, ast.While))
    off, j, d, c = Lin.var("off"), Lin.var("j"), Lin.var("|dom|"), Lin.var("|cod|")
    box = Box("box", Seq.atom(Atom("dom", d)), Seq.atom(Atom("cod", c)))
    ev = Evaluator(Facts(free=["off", "j"]), "follow_wire")
    params = [a.arg for a in fw.args.args]
    env = {"box": box, "off": off, params[2]: j}
    ifs = [s for s in loop.body if isinstance(s, ast.If)]
    ret_pair = None
    if len(ifs) != 2:
        fails.append("R07.1 follow_wire: expected a two-stage split inside the loop, found %d `if`s" % len(ifs))
    else:
        inside = cond_lins(ev, ifs[0].test, env)
        if inside != sorted([j - off, off + d - j - 1], key=repr):
            fails.append("R07.1 follow_wire: 'wire enters the box' test is %r, spec off <= j < off + |dom|" % (inside,))
        if not any(isinstance(s, ast.Return) for s in ifs[0].body):
            fails.append("R07.1 follow_wire: does not return when the wire enters the box")
        leftc = cond_lins(ev, ifs[1].test, env)
        if leftc != [j - off]:
            fails.append("R07.1 follow_wire: 'box is left of the wire' test is %r, spec off <= j" % (leftc,))
        upd = [s for s in ifs[1].body if isinstance(s, ast.AugAssign)]
        if len(upd) != 1 or Lin.of(ev.ev(upd[0].value, env)) != c - d or not isinstance(upd[0].op, ast.Add) or ast.unparse(upd[0].target) != params[2]:
            fails.append("R07.1 follow_wire: wire position update is %s, spec j += |cod| - |dom|" % ([ast.unparse(u) for u in upd],))
        app_t = [ast.unparse(s.value.func.value) for s in ifs[1].body if isinstance(s, ast.Expr) and isinstance(s.value, ast.Call) and ast.unparse(s.value.func).endswith(".append")]
        app_f = [ast.unparse(s.value.func.value) for s in ifs[1].orelse if isinstance(s, ast.Expr) and isinstance(s.value, ast.Call) and ast.unparse(s.value.func).endswith(".append")]
        rets = [n for n in ast.walk(fw) if isinstance(n, ast.Return)]
        pairs = {ast.unparse(r.value.elts[2]) for r in rets if isinstance(r.value, ast.Tuple) and len(r.value.elts) == 3}
        if len(app_t) != 1 or len(app_f) != 1 or pairs != {"(%s, %s)" % (app_t[0], app_f[0])}:
            fails.append("R07.1 follow_wire: each box must go to exactly one list and the lists be returned as (left, right); found %r / %r / %r" % (app_t, app_f, pairs))
    # ---------------- R07.2 find_snake
    fs = inner(top, "find_snake")
    legs = next((n for n in ast.walk(fs) if isinstance(n, ast.For) and isinstance(n.iter, ast.List) and len(n.iter.elts) == 2), None)
    if legs is None:
        fails.append("R07.2 find_snake: no loop over the two legs of the cap")
    else:
        ocap, ocup, wire = Lin.var("offsets[cap]"), Lin.var("offsets[cup]"), Lin.var("wire")
        starts = {}
        for e in legs.iter.elts:
            flag = e.elts[0].value
            start = ast.unparse(e.elts[1]).replace("diagram.offsets[cap]", "OC")
            starts[flag] = start
        if starts != {True: "OC", False: "OC + 1"}:
            fails.append("R07.2 find_snake: legs start at %r, spec left snake from offsets[cap], right snake from offsets[cap] + 1" % starts)
        ny = next((s for s in legs.body if isinstance(s, ast.Assign) and isinstance(s.value, ast.BoolOp) and isinstance(s.value.op, ast.Or)), None)
        txt = ast.unparse(ny.value) if ny else ""
        want = ["left_snake and diagram.offsets[cup] + 1 != wire", "not left_snake and diagram.offsets[cup] != wire",
                "cup == len(diagram)", "not isinstance(diagram.boxes[cup], Cup)"]
        # normal form of the two leg conditions
        ev2 = Evaluator(Facts(free=["oc", "w"]), "find_snake")
        envs = {"diagram": Obj("D", offsets=Seq.atom(Atom("offs", elem=lambda k: Lin.var("oc")))), "cup": Lin.var("cup"), "wire": Lin.var("w")}
        got = {}
        for v in (ny.value.values if ny else []):
            if isinstance(v, ast.BoolOp) and isinstance(v.op, ast.And) and len(v.values) == 2 and isinstance(v.values[1], ast.Compare):
                flag = ast.unparse(v.values[0])
                ev2.facts = Facts([Lin.var("cup"), Lin.var("|offs|") - Lin.var("cup") - 1], free=["oc", "w"])
                got[flag] = cond_lins(ev2, v.values[1], envs)
        spec = {"left_snake": [("ne", max([Lin.var("oc") + 1 - Lin.var("w"), Lin.var("w") - Lin.var("oc") - 1], key=lambda l: l.key()))],
                "not left_snake": [("ne", max([Lin.var("oc") - Lin.var("w"), Lin.var("w") - Lin.var("oc")], key=lambda l: l.key()))]}
        if got != spec:
            fails.append("R07.2 find_snake: leg-pairing tests %r, spec %r" % (got, spec))
        if not all(w in txt for w in want[2:]):
            fails.append("R07.2 find_snake: must also reject `cup == len(diagram)` and non-Cup boxes")
    # ---------------- R07.3/4 unsnake
    us = inner(top, "unsnake")
    table = {}
    for branch, side in ((next(s for s in us.body if isinstance(s, ast.If)).body, "left_snake"), (next(s for s in us.body if isinstance(s, ast.If)).orelse, "right_snake")):
        for lp in [s for s in branch if isinstance(s, ast.For)]:
            lst = ast.unparse(lp.iter).split("[")[0]
            calls = [n for n in ast.walk(lp) if isinstance(n, ast.Call) and ast.unparse(n.func).endswith(".interchange")]
            ys = [n for n in ast.walk(lp) if isinstance(n, ast.Yield)]
            upd = [s for s in lp.body if isinstance(s, ast.AugAssign) and ast.unparse(s.target) in ("cap", "cup")]
            tgt = ast.unparse(calls[0].args[1]) if calls else None
            table[(side, lst)] = tgt
            ok = len(calls) == 1 and len(ys) == 1 and len(upd) == 1 and ast.unparse(upd[0].target) == tgt \
                and ((tgt == "cap" and isinstance(upd[0].op, ast.Add)) or (tgt == "cup" and isinstance(upd[0].op, ast.Sub))) and ast.unparse(upd[0].value) == "1"
            if not ok:
                fails.append("R07.3 unsnake %s loop over %s: needs exactly one interchange, one yield and cap += 1 / cup -= 1 matching the target (found %d calls, %d yields, %s)"
                             % (side, lst, len(calls), len(ys), [ast.unparse(u) for u in upd]))
    spec_table = {("left_snake", "left_obstruction"): "cap", ("left_snake", "right_obstruction"): "cup",
                  ("right_snake", "left_obstruction"): "cup", ("right_snake", "right_obstruction"): "cap"}
    if table != spec_table:
        fails.append("R07.3 unsnake moves obstructions %r, spec %r" % (table, spec_table))
    cuts = {}
    for s in us.body:
        if isinstance(s, ast.Assign) and ast.unparse(s.targets[0]) in ("boxes", "offsets", "layers"):
            subs = [ast.unparse(n.slice) for n in ast.walk(s.value) if isinstance(n, ast.Subscript)]
            cuts[ast.unparse(s.targets[0])] = subs
    if len(set(map(tuple, cuts.values()))) != 1 or len(cuts) != 3 or list(cuts.values())[0] != [":cap", "cup + 1:"]:
        fails.append("R07.4 unsnake deletes with different cuts: %r (spec [:cap] and [cup + 1:] on boxes, offsets and layers)" % cuts)
    for f in fails:
        out("VIOLATION-CANDIDATE " + f)
    if not fails:
        out("  R07.1-4 ok: follow_wire split, leg pairing, direction table %s, gap accounting, parallel deletion" % sorted(table.items()))
    return 1 if fails else 0


if __name__ == "__main__":
    sys.exit(check())
