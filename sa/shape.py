"""Shape rules: compare an expression with specification terms modulo renaming of parameters and single-use temporaries.

Verdict taxonomy for a mismatch (DESIGN §3.1):
  * the expression is built from the *same vocabulary* as a spec (same names / attributes / callees, possibly with a
    confusable partner swapped: dom<->cod, left<->right, l<->r, cups<->caps, ...) but arranged differently: the code was
    understood and means something else -> **violation**;
  * the expression uses vocabulary the spec does not know (a helper, another idiom): the rule cannot tell -> **analysis error**
    (exit 2), never a guessed verdict.
"""
import ast
import copy
from .core import AnalysisError

CONFUSABLE = [{"dom", "cod"}, {"left", "right"}, {"l", "r"}, {"cups", "caps"}, {"Cup", "Cap"}, {"boxes", "offsets"},
              {"cap", "cup"}, {"start", "stop"}, {"real", "imag"}, {"classical", "quantum"}, {"bits", "qubits"},
              {"then", "tensor"}, {"subs", "lambdify"}, {"sin", "cos"}, {"Z", "X"}, {"inputs", "outputs"},
              {"LShift", "RShift"}, {"Add", "Sub"}, {"Lt", "Gt"}, {"LtE", "GtE"}, {"Eq", "NotEq"}, {"Mult", "Div"}, {"n_legs_in", "n_legs_out"}, {"udom", "ucod"}, {"_left", "_right"}, {"dagger", "conjugate"},
              {"id", "cups", "caps", "swap", "l", "r"}, {"ones", "zeros", "eye", "identity"}]
_PARTNER = {}
for _s in CONFUSABLE:
    for _a in _s:
        _PARTNER.setdefault(_a, set()).update(_s - {_a})


class _Rename(ast.NodeTransformer):
    def __init__(self, mapping):
        self.mapping = mapping

    def visit_Name(self, n):
        if n.id in self.mapping:
            v = self.mapping[n.id]
            return copy.deepcopy(v) if isinstance(v, ast.AST) else ast.Name(id=v, ctx=n.ctx)          # an assignment target stays one
        return n


def rename(expr, mapping):
    return _Rename(mapping).visit(copy.deepcopy(expr))


def single_assignments(body):
    """{name: value} for locals assigned exactly once by a simple `name = expr` at the top level of `body`"""
    count, val = {}, {}
    for st in body:
        for n in ast.walk(st):
            if isinstance(n, ast.Assign):
                for t in n.targets:
                    for x in ast.walk(t):
                        if isinstance(x, ast.Name):
                            count[x.id] = count.get(x.id, 0) + 1
            elif isinstance(n, (ast.AugAssign, ast.For)):
                tgt = n.target
                for x in ast.walk(tgt):
                    if isinstance(x, ast.Name):
                        count[x.id] = count.get(x.id, 0) + 2
        if isinstance(st, ast.Assign) and len(st.targets) == 1:
            t = st.targets[0]
            if isinstance(t, ast.Name):
                val[t.id] = st.value
            elif isinstance(t, ast.Tuple) and isinstance(st.value, ast.Tuple) and len(t.elts) == len(st.value.elts):
                for a, v in zip(t.elts, st.value.elts):
                    if isinstance(a, ast.Name):
                        val[a.id] = v
    return {k: v for k, v in val.items() if count.get(k) == 1}


def inline(expr, body, depth=4, keep=()):
    """substitute single-assignment temporaries of `body` into expr (names in `keep` are left alone)"""
    loc = {k: v for k, v in single_assignments(body).items() if k not in keep}
    for _ in range(depth):
        used = {n.id for n in ast.walk(expr) if isinstance(n, ast.Name)} & set(loc)
        if not used:
            break
        expr = rename(expr, {k: loc[k] for k in used})
    return expr


class _Canon(ast.NodeTransformer):
    """order-insensitive forms: operands of `==` / `!=` and of `and` / `or` are sorted"""
    def visit_Compare(self, n):
        self.generic_visit(n)
        if len(n.ops) == 1 and isinstance(n.ops[0], (ast.Eq, ast.NotEq)):
            a, b = sorted([n.left, n.comparators[0]], key=lambda x: ast.dump(x))
            n.left, n.comparators = a, [b]
        return n

    def visit_BoolOp(self, n):
        self.generic_visit(n)
        flat = []
        for v in n.values:            # (a or b) or c  ==  a or b or c
            if isinstance(v, ast.BoolOp) and type(v.op) is type(n.op):
                flat += v.values
            else:
                flat.append(v)
        n.values = sorted(flat, key=lambda x: ast.dump(x))
        return n


class _LambdaParams(ast.NodeTransformer):
    """lambda parameters are bound names: they are numbered by position so that `lambda x, y: x @ y` and `lambda left, right: left @ right` agree, while a
    body that reaches for an OUTER name of the same spelling does not"""
    def __init__(self):
        self.depth = 0

    def visit_Lambda(self, n):
        a = n.args
        params = [x.arg for x in a.posonlyargs + a.args + a.kwonlyargs] + ([a.vararg.arg] if a.vararg else []) + ([a.kwarg.arg] if a.kwarg else [])
        mapping = {p: "_p%d_%d" % (self.depth, k) for k, p in enumerate(params)}
        self.depth += 1
        n = self.generic_visit(n)
        self.depth -= 1
        for x in a.posonlyargs + a.args + a.kwonlyargs + ([a.vararg] if a.vararg else []) + ([a.kwarg] if a.kwarg else []):
            x.arg = mapping[x.arg]
        n.body = _Rename(mapping).visit(n.body)
        return n


class _CompVars(ast.NodeTransformer):
    """the variables a comprehension binds are numbered like lambda parameters: [F(x) for x in d] is [F(term) for term in d]"""
    def __init__(self):
        self.depth = 0

    def _comp(self, n):
        bound = []
        for g in n.generators:
            for x in ast.walk(g.target):
                if isinstance(x, ast.Name) and x.id not in bound:
                    bound.append(x.id)
        mapping = {p: "_c%d_%d" % (self.depth, k) for k, p in enumerate(bound)}
        self.depth += 1
        n = self.generic_visit(n)
        self.depth -= 1
        first = n.generators[0].iter            # evaluated in the enclosing scope
        n = _Rename(mapping).visit(n)
        for g in n.generators:
            for x in ast.walk(g.target):
                if isinstance(x, ast.Name) and x.id in mapping:
                    x.id = mapping[x.id]
        return n

    visit_ListComp = visit_SetComp = visit_GeneratorExp = visit_DictComp = _comp


def canon_lambdas(expr):
    return _CompVars().visit(_LambdaParams().visit(copy.deepcopy(expr)))


def key(expr):
    e = _Canon().visit(canon_lambdas(expr))
    return ast.dump(e, annotate_fields=False, include_attributes=False)


def vocab(expr):
    v = set()
    expr = canon_lambdas(expr) if isinstance(expr, ast.expr) else expr
    for n in ast.walk(expr):
        if isinstance(n, ast.Name):
            if not n.id.startswith("_p"):
                v.add(n.id)
        elif isinstance(n, ast.Attribute):
            v.add(n.attr)
        elif isinstance(n, ast.Constant):
            v.add(repr(n.value))
        elif isinstance(n, ast.keyword) and n.arg:
            v.add(n.arg + "=")
        elif isinstance(n, (ast.BinOp, ast.UnaryOp)):
            v.add(type(n.op).__name__)
        elif isinstance(n, ast.Compare):
            v.update(type(o).__name__ for o in n.ops)
    return v


def parse(spec):
    from . import alpha
    t = ast.parse(spec, mode="eval")
    alpha.normalise_polarity(t)               # the analysed tree is in this normal form (`a if c else b`, never `b if not c else a`)
    return t.body


def match(ctx, rule, construct, found, specs, names=None, body=None, mod=None, node=None, sig=None, required=None):
    """found: expression node (or None).  specs: spec strings over canonical names.  names: {actual local name: canonical name}.
    Records an obligation (ok / violation) or raises AnalysisError (unknown vocabulary)."""
    specs = [specs] if isinstance(specs, str) else list(specs)
    req = required or " | ".join(specs)
    if found is None:
        ctx.ob(rule, construct, False, found="nothing (construct missing)", required=req, mod=mod, node=node, sig=sig or "missing")
        return False
    e = found
    if body is not None:
        e = inline(e, body)
    if names:
        e = rename(e, names)
    k = key(e)
    sp = [parse(s) for s in specs]
    if any(key(s) == k for s in sp):
        ctx.ob(rule, construct, True, found=ast.unparse(e), required=req, mod=mod, node=node or found)
        return True
    fv = vocab(e)
    for s in sp:
        sv = vocab(s)
        allowed = set(sv)
        for t in sv:
            allowed |= _PARTNER.get(t, set())
        extra = fv - allowed
        # numeric constants that differ are a semantic change, not new vocabulary
        extra = {t for t in extra if not _is_number(t) and t not in ("Not", "USub", "Is", "IsNot", "Eq", "NotEq", "Lt", "LtE", "Gt", "GtE", "In", "NotIn", "Add", "Sub", "Mult", "Div", "FloorDiv", "Mod", "Pow", "MatMult", "RShift", "LShift")}
        # an inserted negation, comparison or arithmetic step is a change of meaning, not a new idiom
        if not extra:
            ctx.ob(rule, construct, False, found=ast.unparse(e), required=req, mod=mod, node=node or found, sig=sig or "shape")
            return False
    raise AnalysisError("%s %s: `%s` uses vocabulary outside the recognised forms (%s); cannot decide" %
                        (rule, construct, ast.unparse(e)[:120], req[:160]))


def _is_number(t):
    try:
        float(t)
        return True
    except ValueError:
        return t in ("None", "True", "False") or t[:1] in "'\""          # a different literal is a change of meaning, not a new idiom


def stmt_key(st):
    e = _Canon().visit(canon_lambdas(st))
    return ast.dump(e, annotate_fields=False, include_attributes=False)


def match_stmts(ctx, rule, construct, body, specs, names=None, mod=None, node=None, sig=None, required=None, exact=False):
    """every spec statement (source text over canonical names) occurs among `body` (statements, compared modulo the renaming `names`);
    with exact=True the body consists of exactly the spec statements in order.  Same taxonomy as `match`: a body over the same vocabulary that
    does not contain the statements is a violation, a body using other vocabulary is an analysis error."""
    names = names or {}
    got = [rename(s, names) for s in body if not (isinstance(s, ast.Expr) and isinstance(s.value, ast.Constant))]
    from . import alpha
    wm = ast.parse("\n".join(specs))
    alpha.split_tuple_assigns(wm)               # the analysed tree has one binding per statement (model normalisation)
    alpha.normalise_polarity(wm)
    want = list(wm.body)
    gk, wk = [stmt_key(s) for s in got], [stmt_key(s) for s in want]
    ok = (gk == wk) if exact else all(k in gk for k in wk)
    req = required or "; ".join(specs)
    if ok:
        ctx.ob(rule, construct, True, found="; ".join(ast.unparse(s) for s in got)[:300], required=req, mod=mod, node=node or (body[0] if body else None))
        return True
    allowed = set()
    for w in want:
        for t in vocab(w):
            allowed.add(t)
            allowed |= _PARTNER.get(t, set())
    OPS = ("Not", "USub", "Add", "Sub", "Mult", "Div", "FloorDiv", "Mod", "Pow", "MatMult", "RShift", "LShift", "Lt", "LtE", "Gt", "GtE", "Eq", "NotEq", "In", "NotIn", "Is", "IsNot")      # arithmetic / comparison changes are changes of meaning

    bound = {x.id for g in got for x in ast.walk(g) if isinstance(x, ast.Name) and isinstance(x.ctx, ast.Store)}       # locals may carry any name

    def new_vocab(g):
        return {t for t in vocab(g) - allowed - bound if not _is_number(t) and t not in OPS}
    extra = set()
    for g in got:
        extra |= new_vocab(g)
    if extra and not exact:
        # statements outside the spec may legitimately use other names: only the statements that share a target / callee with a spec matter
        heads = {head(w) for w in want}
        extra = set()
        for g in got:
            if head(g) in heads:
                extra |= new_vocab(g)
    if extra:
        raise AnalysisError("%s %s: statements use vocabulary outside the recognised forms %s; cannot decide" % (rule, construct, sorted(extra)[:6]))
    ctx.ob(rule, construct, False, found="; ".join(ast.unparse(s) for s in got)[:300], required=req, mod=mod, node=node or (body[0] if body else None), sig=sig or "stmts")
    return False


def head(st):
    """what a statement is about: its assignment targets or the callee of an expression statement"""
    if isinstance(st, ast.Assign):
        return "=" + ",".join(sorted(ast.unparse(t) for t in st.targets))
    if isinstance(st, ast.AugAssign):
        return "=" + ast.unparse(st.target)
    if isinstance(st, ast.Expr) and isinstance(st.value, ast.Call):
        return "call:" + ast.unparse(st.value.func)
    return type(st).__name__


def values_of(body, names):
    """the values bound to `names` at the top level of `body` as an ast.Tuple (one assignment each, or one tuple assignment); None if any is missing"""
    found = {}
    for st in body:
        if isinstance(st, ast.Assign) and len(st.targets) == 1:
            t = st.targets[0]
            if isinstance(t, ast.Name) and t.id in names:
                found[t.id] = st.value
            elif isinstance(t, ast.Tuple) and isinstance(st.value, ast.Tuple) and len(t.elts) == len(st.value.elts):
                for a, v in zip(t.elts, st.value.elts):
                    if isinstance(a, ast.Name) and a.id in names:
                        found[a.id] = v
    if any(n not in found for n in names):
        return None
    return ast.Tuple(elts=[found[n] for n in names], ctx=ast.Load())


def expand_tuple_assigns(stmts):
    """`a.x, a.y = p, q` (as many call-free values on the right as targets on the left, none of them reading a target) as one assignment per target: the order of such copies is immaterial"""
    out = []
    for st in stmts:
        if isinstance(st, ast.Assign) and len(st.targets) == 1 and isinstance(st.targets[0], ast.Tuple) and isinstance(st.value, ast.Tuple) and len(st.targets[0].elts) == len(st.value.elts) \
                and not ({ast.unparse(t) for t in st.targets[0].elts} & {ast.unparse(x) for v in st.value.elts for x in ast.walk(v) if isinstance(x, (ast.Name, ast.Attribute, ast.Subscript))}) \
                and not any(isinstance(x, (ast.Call, ast.Yield, ast.Await, ast.NamedExpr)) for v in st.value.elts for x in ast.walk(v)):
            out += [ast.copy_location(ast.Assign(targets=[t], value=v, lineno=st.lineno), st) for t, v in zip(st.targets[0].elts, st.value.elts)]
        else:
            out.append(st)
    return out
