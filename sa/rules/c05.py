"""C05 — interchange moves exactly one box past a disconnected neighbour (rules R05.1–R05.4, engines A, B, F)."""
import ast
from ..lin import Lin, Facts
from ..words import Seq, Seg, Item, Atom, Unlocatable
from ..beval import (Evaluator, Obj, Box, Layer, Arrow, Diagram, Closure, Unsupported, Undecided, layer_dom, layer_cod)
from ..cfg import CFG
from .. import pred
from ..core import AnalysisError

EXPLANATION = (
    "rewriting.interchange is evaluated abstractly (engine B: words over independent type atoms, linear forms for "
    "offsets and indices) on the two generic well-typed instances of an adjacent pair of layers (upper box right of / "
    "left of the lower box). Every concrete pair of disconnected neighbours is a substitution instance of one of them, so "
    "the verdict holds for all inputs. Decided: the branch predicates equal the interval-disjointness spec (both as "
    "valid-on-exactly-one-configuration and as linear normal forms), the else raises InterchangerError, exchanged layers / "
    "offsets / boxes equal the spec and compose with the untouched prefix and suffix, the index guard dominates all "
    "indexing, and the long moves telescope into adjacent moves ending at j. Not decided: nothing is executed; equality "
    "of denotation under functors is the interchange law applied to the verified pair (cited, not re-proved).")

M = "discopy.rewriting"
FN = "discopy.rewriting.interchange"


def W(*atoms):
    return Seq([Seg(a) for a in atoms])


def generic_instance(case):
    """generic diagram with two distinguished adjacent layers i, i+1; case R / L well-typed, case U unconstrained."""
    A = {n: Atom(n) for n in "P M B dom0 cod0 dom1 cod1 Row0 RowN left0 right0 left1 right1".split()}
    P, Mm, B, d0, c0, d1, c1 = (A[k] for k in "P M B dom0 cod0 dom1 cod1".split())
    box0, box1 = Box("box0", W(d0), W(c0)), Box("box1", W(d1), W(c1))
    exp1 = exp0 = None
    if case == "R":   # box0 (upper) to the right of box1 (lower)
        l0, r0, l1, r1 = W(P, d1, Mm), W(B), W(P), W(Mm, c0, B)
        exp1, exp0 = Layer(W(P), box1, W(Mm, d0, B)), Layer(W(P, c1, Mm), box0, W(B))
    elif case == "L":  # box0 (upper) to the left of box1 (lower)
        l0, r0, l1, r1 = W(P), W(Mm, d1, B), W(P, c0, Mm), W(B)
        exp1, exp0 = Layer(W(P, d0, Mm), box1, W(B)), Layer(W(P), box0, W(Mm, c1, B))
    else:
        l0, r0, l1, r1 = W(A["left0"]), W(A["right0"]), W(A["left1"]), W(A["right1"])
    lay0, lay1 = Layer(l0, box0, r0), Layer(l1, box1, r1)
    i, n = Lin.var("i"), Lin.var("n")
    facts = Facts([n - i - 2])            # 0 <= i, i + 1 < n
    top, mid, bot = layer_dom(lay0), layer_cod(lay0), layer_cod(lay1)

    def at(k, table, what):
        for key, val in table:
            if facts.eq(k, key):
                return val
        raise Unsupported("%s[%r] is not part of the generic instance" % (what, k))
    rows = lambda k: at(k, [(i, top), (i + 1, mid), (i + 2, bot), (Lin.of(0), Seq.atom(A["Row0"])),
                            (n, Seq.atom(A["RowN"]))], "row")
    off0 = l0.length if case != "U" else Lin.var("off0")
    off1 = l1.length if case != "U" else Lin.var("off1")
    LAY = Atom("layers", n, elem=lambda k: at(k, [(i, lay0), (i + 1, lay1)], "layers"))
    BOX = Atom("boxes", n, elem=lambda k: at(k, [(i, box0), (i + 1, box1)], "boxes"))
    OFF = Atom("offsets", n, elem=lambda k: at(k, [(i, off0), (i + 1, off1)], "offsets"))
    d = Diagram(Seq.atom(A["Row0"]), Seq.atom(A["RowN"]), Seq.atom(BOX), Seq.atom(OFF),
                Arrow(Seq.atom(A["Row0"]), Seq.atom(A["RowN"]), Seq.atom(LAY), rows=rows))
    expected = dict(layer1=exp1, layer0=exp0, i=i, n=n, rows=rows, LAY=LAY, BOX=BOX, OFF=OFF, box0=box0, box1=box1,
                    off0=off0, off1=off1, d0=d0, c0=c0, d1=d1, c1=c1)
    return d, facts, expected


def find_chain(fn):
    """the if/elif chain that builds the exchanged layers (anchored by role: its branches call Layer(...))"""
    for st in fn.body:
        if isinstance(st, ast.If) and any(isinstance(c, ast.Call) and ast.unparse(c.func).endswith("Layer")
                                          for b in st.body for c in ast.walk(b)):
            chain, cur = [], st
            while True:
                chain.append((cur.test, cur.body))
                if len(cur.orelse) == 1 and isinstance(cur.orelse[0], ast.If):
                    cur = cur.orelse[0]
                else:
                    break
            return st, chain, cur.orelse
    return None, None, None


def split_flag(test, flag):
    if isinstance(test, ast.BoolOp) and isinstance(test.op, ast.And) and len(test.values) == 2 \
            and isinstance(test.values[0], ast.Name) and test.values[0].id == flag:
        return True, test.values[1]
    return False, test


def same_layer(a, b, facts):
    return isinstance(a, Obj) and a.kind == "Layer" and a.f["left"].same(b.f["left"], facts) \
        and a.f["right"].same(b.f["right"], facts) and a.f["box"] is b.f["box"]


def mk_eval(facts):
    ev = Evaluator(facts, "interchange")
    ev.classes.update(Layer=Closure(Layer), Diagram=Closure(
        lambda dom, cod, boxes, offsets, layers=None: Diagram(dom, cod, boxes, offsets, layers)))
    return ev


def union_is_false(test, flag, ev, env):
    """does the branch need the flag? (its test is false when the flag is False)"""
    e2 = dict(env)
    e2[flag] = False
    try:
        return not ev.truth(ev.ev(test, e2), test)
    except Exception:
        return False


def binds(call, init):
    """does the call's argument list bind against the constructor `init` (self excluded)?"""
    a = init.args
    pos = [x.arg for x in a.args[1:]]
    npos = len([x for x in call.args if not isinstance(x, ast.Starred)])
    if any(isinstance(x, ast.Starred) for x in call.args) or any(k.arg is None for k in call.keywords):
        return True
    if npos > len(pos) and a.vararg is None:
        return False
    kws = [k.arg for k in call.keywords]
    for k in kws:
        if k in pos[:npos]:
            return False
        if k not in pos and k not in [x.arg for x in a.kwonlyargs] and a.kwarg is None:
            return False
    required = pos[:len(pos) - len(a.defaults)]
    return all(r in pos[:npos] or r in kws for r in required)


def check_result_class(ctx, m, fn, self_):
    """R05.5: the result is handed back in the class of the argument through `upgrade`; a direct `type(self)(...)` must bind against the constructor
    of every diagram subclass (several have their own signatures: Id(dom), cartesian.Swap(left, right), IQPansatz(n_qubits, params), ...)"""
    D = m.cls("discopy.monoidal.Diagram")
    for r in [x for x in ast.walk(fn) if isinstance(x, ast.Return) and x.value is not None]:
        v = r.value
        if isinstance(v, ast.Call) and isinstance(v.func, ast.Call) and ast.unparse(v.func) == "type(%s)" % self_:
            bad = []
            for c in sorted(m.subclasses(D), key=lambda c: c.q):
                init = m.lookup(c, "__init__")
                if init and isinstance(init[1], ast.FunctionDef) and not binds(v, init[1]):
                    bad.append("%s(%s)" % (c.q, ", ".join(x.arg for x in init[1].args.args[1:])))
            ctx.ob("R05.5", FN + ":result-class", not bad, found="`%s` does not bind against the constructors of %s" % (ast.unparse(v)[:70], ", ".join(bad[:4]) + (" …" if len(bad) > 4 else "")) if bad else ast.unparse(v)[:80],
                   required="the result is built as a monoidal Diagram and handed to self.upgrade (subclasses of Diagram have constructors with other signatures)", mod=M, node=r, sig="result-class")
        elif isinstance(v, ast.Call) and ast.unparse(v.func) == self_ + ".upgrade" and len(v.args) == 1 and isinstance(v.args[0], ast.Call) and \
                m.resolve_class(M, ast.unparse(v.args[0].func)) is D:
            ctx.ob("R05.5", FN + ":result-class", True, found=ast.unparse(v.func) + "(Diagram(...))", required="built as a monoidal Diagram, upgraded to the class of the argument", mod=M, node=r)


def check_refusal_ctor(ctx, m):
    """R05.6: refusing a move must itself not fail: the boxes of a layer may be arbitrary diagrams, so InterchangerError reads of them only what every diagram has"""
    ie = m.cls("discopy.rewriting.InterchangerError")
    init = ie.methods.get("__init__")
    ctx.need(init is not None, "InterchangerError has no constructor")
    fn = init[0]
    D = m.cls("discopy.monoidal.Diagram")
    params = [a.arg for a in fn.args.args[1:]]
    bad = []

    def scan(f, names, where):
        for x in ast.walk(f):
            if isinstance(x, ast.Attribute) and isinstance(x.value, ast.Name) and x.value.id in names and isinstance(x.ctx, ast.Load):
                if m.lookup(D, x.attr) is None and x.attr not in ("dom", "cod", "boxes", "offsets", "layers"):
                    bad.append(where + ast.unparse(x))
            # the boxes handed on to a helper of the package (e.g. a message template): the helper is held to the same rule
            if isinstance(x, ast.Call) and any(isinstance(a, ast.Name) and a.id in names for a in x.args):
                r = m.resolve(M if f is fn else "discopy.messages", ast.unparse(x.func)) if not ast.unparse(x.func).startswith(("super", "str", "repr", "format")) else None
                if r and r[0] == "function" and r[1] in m.functions and m.functions[r[1]] is not f:
                    g = m.functions[r[1]]
                    passed = {g.args.args[k].arg for k, a in enumerate(x.args) if isinstance(a, ast.Name) and a.id in names and k < len(g.args.args)}
                    scan(g, passed, r[1].rsplit(".", 1)[-1] + ": ")
    scan(fn, set(params), "")
    ctx.ob("R05.6", "discopy.rewriting.InterchangerError.__init__", not bad, found=sorted(set(bad)) or "formats its arguments with str()", required="only attributes every diagram has (a box of a layer may be a composite "
           "diagram, e.g. after foliation): otherwise the refusal raises AttributeError instead of InterchangerError", mod=M, node=fn, sig="refusal-ctor")


def check(ctx):
    m = ctx.model
    fn = m.func(FN)
    ctx.analysed(FN, "discopy.rewriting.InterchangerError")
    ctx.rule("R05.1", "the disjunction of the exchange tests equals the interval-disjointness spec "
                      "(off0 >= off1+|dom1| or off1 >= off0+|cod0|), each test selects exactly one generic configuration, "
                      "and the else branch raises InterchangerError")
    ctx.rule("R05.2", "on the generic instance of its configuration each branch produces the exchanged pair of layers, "
                      "which compose with layers[:i] and layers[i+2:]; offsets equal |left|; boxes/offsets/layers spliced alike; dom/cod kept")
    ctx.rule("R05.3", "0 <= i, j < len(self) is tested (IndexError) before any indexing; i == j returns self")
    ctx.rule("R05.5", "the result is built as a monoidal Diagram and upgraded to the class of the argument")
    ctx.rule("R05.6", "the refusal (InterchangerError) can be constructed for any pair of boxes of a layer")
    ctx.rule("R05.4", "long moves telescope: step k exchanges (i∓k, i∓k∓1), consecutive steps chain, the last ends at j")
    params = [a.arg for a in fn.args.args]
    ctx.need(len(params) >= 4, "interchange(self, i, j, left) signature changed: %s" % params)
    self_, i_, j_, flag = params[:4]
    ctx.attempt(check_result_class, ctx, m, fn, self_)
    ctx.attempt(check_refusal_ctor, ctx, m)
    if_node, chain, orelse = find_chain(fn)
    ctx.need(chain is not None, "no if/elif chain building Layer(...) values in interchange")
    idx = fn.body.index(if_node)
    prologue, epilogue = fn.body[:idx], fn.body[idx + 1:]

    # ---- R05.1 refusal ----------------------------------------------------
    ie = m.cls("discopy.rewriting.InterchangerError")
    ax = m.cls("discopy.cat.AxiomError")
    ctx.ob("R05.1", "InterchangerError", m.is_subclass(ie, ax), found=[c.q for c in m.mro(ie)],
           required="subclass of cat.AxiomError", mod=M, node=ie.node, sig="hierarchy", trivial=True)
    raises = orelse and isinstance(orelse[-1], ast.Raise) and orelse[-1].exc is not None and \
        m.resolve_class(M, ast.unparse(orelse[-1].exc.func if isinstance(orelse[-1].exc, ast.Call) else orelse[-1].exc)) is ie
    ctx.ob("R05.1", FN + ":else", bool(raises), found=ast.unparse(orelse[-1]) if orelse else "no else branch",
           required="raise InterchangerError(box0, box1)", mod=M, node=orelse[-1] if orelse else if_node, sig="else-raises")

    # ---- R05.1 predicates, R05.2 bodies -------------------------------------
    FREE = ["off0", "off1"]
    spec = {}
    d, facts, exp = generic_instance("U")
    spec["R"] = pred.atom_ge(exp["off0"] - exp["off1"] - exp["d1"].length)
    spec["L"] = pred.atom_ge(exp["off1"] - exp["off0"] - exp["c0"].length)
    uf = Facts(free=FREE)
    handled = {"R": [], "L": []}
    union_nf = {True: pred.FALSE, False: pred.FALSE}
    first_cfg = {}
    for bno, (test, body) in enumerate(chain):
        cname = "%s:branch%d" % (FN, bno + 1)
        # (a) normal form on the unconstrained pair, for each value of the preference flag
        cfgs, shown = set(), {}
        for fv in (True, False):
            d, facts, exp = generic_instance("U")
            ev = mk_eval(Facts([exp["n"] - exp["i"] - 2], free=FREE))
            env = {self_: d, i_: exp["i"], j_: exp["i"] + 1, flag: fv}
            try:
                r = ev.run(prologue, env)
                ctx.need(r is None, "prologue of interchange returns on the adjacent generic instance: %r" % (r,))
                f = pred.nf(test, lambda n_: ev.ev(n_, env))
            except (Unsupported, Undecided, Unlocatable, TypeError) as e:
                raise AnalysisError("cannot normalise branch test `%s`: %s" % (ast.unparse(test), e))
            shown[fv] = pred.show(f)
            union_nf[fv] = pred._or(union_nf[fv], f)
            if f == pred.FALSE:
                continue
            which = [c for c in "RL" if pred.equivalent(f, spec[c], uf)]
            cfgs.add(which[0] if len(which) == 1 else "?")
            if fv not in first_cfg:
                first_cfg[fv] = which[0] if len(which) == 1 else "?"
        ctx.ob("R05.1", cname + ":test", len(cfgs) == 1 and "?" not in cfgs, found="left=True: %s ; left=False: %s" % (shown[True], shown[False]),
               required="%s  or  %s (possibly only for one value of `%s`)" % (pred.show(spec["R"]), pred.show(spec["L"]), flag), mod=M, node=test,
               sig="test-nf", note="normal form of `%s` on an unconstrained adjacent pair" % ast.unparse(test))
        # (b) valid on exactly one generic configuration, then (R05.2) run the body there
        chosen = []
        for case in "RL":
            for fv in (False, True):
                d, facts, exp = generic_instance(case)
                ev = mk_eval(facts)
                env = {self_: d, i_: exp["i"], j_: exp["i"] + 1, flag: fv}
                try:
                    r = ev.run(prologue, env)
                    ctx.need(r is None, "prologue of interchange returns on the adjacent generic instance")
                    if ev.truth(ev.ev(test, env), test):
                        chosen.append((case, ev, env, exp, d, fv))
                        break
                except Undecided:
                    pass
                except (Unsupported, Unlocatable) as e:
                    raise AnalysisError("prologue/test of interchange outside the recognised idioms: %s" % e)
        ok1 = len(chosen) == 1 and (cfgs == {chosen[0][0]} or not cfgs or "?" in cfgs)
        ctx.ob("R05.1", cname + ":selects", ok1, found="valid on configurations %s" % [c[0] for c in chosen],
               required="valid on exactly one of R (upper box right of lower), L (left of)", mod=M, node=test, sig="selects")
        if len(chosen) != 1:
            continue
        case, ev, env, exp, d, fv = chosen[0]
        needs_flag = union_is_false(test, flag, ev, env)
        handled[case].append((bno, needs_flag))
        probs = []
        try:
            r = ev.run(body, env)
            ctx.need(r is None, "branch body returns early")
            r = ev.run(epilogue, env)
            ctx.need(r is not None and r[0] == "return" and isinstance(r[1], Obj) and r[1].kind == "Diagram",
                     "interchange does not end by returning a Diagram(...) construction")
            res = r[1]
            i = exp["i"]
            BOXS, LAYS, OFFS = Seq.atom(exp["BOX"]), Seq.atom(exp["LAY"]), Seq.atom(exp["OFF"])
            want_boxes = BOXS.slice(None, i, ev.facts) + Seq([Item(exp["box1"]), Item(exp["box0"])]) + BOXS.slice(i + 2, None, ev.facts)
            if res.f.get("layers") is None:
                # no layers handed to the constructor: it scans boxes and offsets itself (C01 R01.2), so boxes and offsets decide the result
                got1, got0 = exp["layer1"], exp["layer0"]
            else:
                lays = res.f["layers"].f["boxes"]
                got1, got0 = lays.item(i, ev.facts), lays.item(i + 1, ev.facts)
                if not same_layer(got1, exp["layer1"], ev.facts):
                    probs.append(("layer[i]", got1, exp["layer1"]))
                if not same_layer(got0, exp["layer0"], ev.facts):
                    probs.append(("layer[i+1]", got0, exp["layer0"]))
                want_lays = LAYS.slice(None, i, ev.facts) + Seq([Item(got1), Item(got0)]) + LAYS.slice(i + 2, None, ev.facts)
                if lays.length != want_lays.length or lays.slice(None, i, ev.facts) != LAYS.slice(None, i, ev.facts) \
                        or lays.slice(i + 2, None, ev.facts) != LAYS.slice(i + 2, None, ev.facts):
                    probs.append(("layers", lays, want_lays))
            if res.f["boxes"] != want_boxes:
                probs.append(("boxes", res.f["boxes"], want_boxes))
            offs = res.f["offsets"]
            if offs.length != OFFS.length or offs.slice(None, i, ev.facts) != OFFS.slice(None, i, ev.facts) \
                    or offs.slice(i + 2, None, ev.facts) != OFFS.slice(i + 2, None, ev.facts):
                probs.append(("offsets", offs, "offsets[:i] + [.,.] + offsets[i+2:]"))
            else:
                o1, o0 = offs.item(i, ev.facts), offs.item(i + 1, ev.facts)
                if not (isinstance(got1, Obj) and ev.facts.eq(o1, exp["layer1"].f["left"].length)):
                    probs.append(("offsets[i]", o1, exp["layer1"].f["left"].length))
                if not (isinstance(got0, Obj) and ev.facts.eq(o0, exp["layer0"].f["left"].length)):
                    probs.append(("offsets[i+1]", o0, exp["layer0"].f["left"].length))
            if res.f["dom"] != exp["rows"](Lin.of(0)) or res.f["cod"] != exp["rows"](exp["n"]):
                probs.append(("dom/cod", (res.f["dom"], res.f["cod"]), "self.dom, self.cod"))
            for o in ev.obligations:
                if not o.ok:
                    probs.append(("composition " + o.where, o.found, o.required))
            nsc = len(ev.obligations)
        except (Unlocatable,) as e:
            probs.append(("slice", str(e), "a locatable boundary"))
            nsc = 0
        except (Unsupported, Undecided) as e:
            raise AnalysisError("branch %d of interchange outside the recognised idioms: %s" % (bno + 1, e))
        if probs:
            for what, found, req in probs:
                ctx.ob("R05.2", cname + ":" + what, False, found=found, required=req, mod=M, node=test,
                       sig=what.split(" ")[0], note="generic instance %s-exchange" % case)
        else:
            ctx.ob("R05.2", cname, True, found="%r , %r" % (got1, got0), required="exchanged pair", mod=M, node=test,
                   note="%s-exchange; %d composition side conditions proved" % (case, nsc))
    want_union = pred._or(spec["R"], spec["L"])
    for fv in (True, False):
        ctx.ob("R05.1", "%s:refused-exactly-when-wired[%s=%s]" % (FN, flag, fv), pred.equivalent(union_nf[fv], want_union, uf), found=pred.show(union_nf[fv]),
               required=pred.show(want_union), mod=M, node=if_node, sig="union-%s" % fv,
               note="disjunction of the exchange tests with `%s` = %s" % (flag, fv))
    for case in "RL":
        ctx.ob("R05.1", "%s:covers-%s" % (FN, case), bool(handled[case]),
               found=handled[case], required="a branch exchanging configuration " + case, mod=M, node=if_node,
               sig="covers-" + case)
    ctx.first_cfg = first_cfg
    ctx.ob("R05.1", FN + ":preference-first", first_cfg == {True: "L", False: "R"},
           found="first exchange tried: %s" % first_cfg, required="the left exchange is tried first iff `%s`; the right exchange first by default" % flag,
           mod=M, node=chain[0][0], sig="preference")

    # ---- R05.3 guards -------------------------------------------------------
    g = CFG(fn)
    n = Lin.var("n")
    iv, jv = Lin.var("i"), Lin.var("j")
    leaf = lambda nd: {i_: iv, j_: jv}.get(nd.id) if isinstance(nd, ast.Name) else \
        (n if ast.unparse(nd) == "len(%s)" % self_ else Lin.of(nd.value) if isinstance(nd, ast.Constant) else _err(nd))
    def lin_eval(nd):
        if isinstance(nd, ast.BinOp) and isinstance(nd.op, (ast.Add, ast.Sub)):
            a, b = lin_eval(nd.left), lin_eval(nd.right)
            return a + b if isinstance(nd.op, ast.Add) else a - b
        v = leaf(nd)
        if v is None:
            raise ValueError(ast.unparse(nd))
        return v
    in_range = pred._and(pred._and(pred.atom_ge(iv), pred.atom_ge(n - iv - 1)), pred._and(pred.atom_ge(jv), pred.atom_ge(n - jv - 1)))
    subs = [s for s in ast.walk(fn) if isinstance(s, ast.Subscript) and isinstance(s.value, ast.Attribute)
            and isinstance(s.value.value, ast.Name) and s.value.value.id == self_]
    calls = [c for c in ast.walk(fn) if isinstance(c, ast.Call) and isinstance(c.func, ast.Attribute) and c.func.attr == "interchange"]
    ctx.need(len(subs) >= 4, "expected indexing of self.offsets/layers/boxes in interchange")
    rets = [r_ for r_ in ast.walk(fn) if isinstance(r_, ast.Return)]
    for s in subs + calls + rets:
        known = pred.TRUE
        for st, lab, how in g.raising_guards_before(s):
            if "IndexError" not in how:
                continue
            try:
                f = pred.nf(st.test, lin_eval)
            except Exception:
                continue
            known = pred._and(known, pred.negate(f) if lab == "T" else f)
        ctx.ob("R05.3", "%s:%s" % (FN, ast.unparse(s)[:40]), pred.entails(known, in_range, Facts(free=["i", "j", "n"])), found=pred.show(known),
               required=pred.show(in_range) + " established by a dominating `raise IndexError` guard", mod=M, node=s,
               sig="index-guard")
    eqret = [st for st in fn.body if isinstance(st, ast.If) and len(st.body) == 1 and isinstance(st.body[0], ast.Return)
             and isinstance(st.body[0].value, ast.Name) and st.body[0].value.id == self_]
    ok = False
    for st in eqret:
        try:
            ok = ok or pred.nf(st.test, lin_eval) == pred.compare_nf(ast.Eq(), iv, jv)
        except Exception:
            pass
    ctx.ob("R05.3", FN + ":i==j", ok, found=[ast.unparse(st.test) for st in eqret], required="if i == j: return self",
           mod=M, node=eqret[0] if eqret else fn, sig="identity-move")

    # ---- R05.4 long moves ------------------------------------------------------
    long_moves = 0
    for st in fn.body:
        if not (isinstance(st, ast.If) and any(isinstance(x, ast.For) for x in st.body)):
            continue
        loop = next(x for x in st.body if isinstance(x, ast.For))
        cname = "%s:long-move@%s" % (FN, ast.unparse(st.test))
        try:
            f = pred.nf(st.test, lin_eval)
            down = f == pred.atom_ge(iv - jv - 2)
            up = f == pred.atom_ge(jv - iv - 2)
            ctx.need(down or up, "long-move test `%s` is neither j < i - 1 nor j > i + 1" % ast.unparse(st.test))
            ctx.need(isinstance(loop.iter, ast.Call) and ast.unparse(loop.iter.func) == "range" and len(loop.iter.args) == 1
                     and isinstance(loop.target, ast.Name), "long-move loop is not `for k in range(count)`")
            count = lin_eval(loop.iter.args[0])
            k = Lin.var("k")
            kname = loop.target.id
            call = next(c for c in ast.walk(loop) if isinstance(c, ast.Call) and isinstance(c.func, ast.Attribute)
                        and c.func.attr == "interchange")
            def ev_k(nd, kval):
                if isinstance(nd, ast.Name) and nd.id == kname:
                    return kval
                if isinstance(nd, ast.BinOp) and isinstance(nd.op, (ast.Add, ast.Sub)):
                    a, b = ev_k(nd.left, kval), ev_k(nd.right, kval)
                    return a + b if isinstance(nd.op, ast.Add) else a - b
                return lin_eval(nd)
            src, dst = (lambda kv: ev_k(call.args[0], kv)), (lambda kv: ev_k(call.args[1], kv))
            sgn = -1 if down else 1
            probs = []
            if count != (iv - jv if down else jv - iv):
                probs.append("count %r" % count)
            if src(Lin.of(0)) != iv:
                probs.append("first source %r" % src(Lin.of(0)))
            if dst(k) != src(k) + sgn:
                probs.append("step k goes %r -> %r" % (src(k), dst(k)))
            if src(k + 1) != dst(k):
                probs.append("steps do not chain: dst(k)=%r, src(k+1)=%r" % (dst(k), src(k + 1)))
            if dst(count - 1) != jv:
                probs.append("last destination %r" % dst(count - 1))
            kw = {kw_.arg: ast.unparse(kw_.value) for kw_ in call.keywords}
            if len(call.args) > 2:
                kw[flag] = ast.unparse(call.args[2])
            if kw.get(flag) != flag:
                probs.append("`%s` not passed on" % flag)
            asg = [x for x in loop.body if isinstance(x, ast.Assign) and x.value is call]
            recv = ast.unparse(call.func.value)
            if not asg or ast.unparse(asg[0].targets[0]) != recv:
                probs.append("result of step not chained into the next (%s = %s...)" % (ast.unparse(asg[0].targets[0]) if asg else "?", recv))
            init = [x for x in st.body if isinstance(x, ast.Assign) and ast.unparse(x.targets[0]) == recv]
            if not init or ast.unparse(init[0].value) != self_:
                probs.append("chain does not start from self")
            ret = st.body[-1]
            if not (isinstance(ret, ast.Return) and ast.unparse(ret.value) == recv):
                probs.append("the last step is not what is returned")
            ctx.ob("R05.4", cname, not probs, found="; ".join(probs) or "steps (%r -> %r) for k < %r" % (src(k), dst(k), count),
                   required="src(0)=i, dst(k)=src(k)%+d=src(k+1), dst(count-1)=j" % sgn, mod=M, node=st, sig="telescope")
            long_moves += 1
        except (ValueError, StopIteration) as e:
            raise AnalysisError("long-move loop outside the recognised idiom: %s" % e)
    ctx.need(long_moves == 2, "expected two long-move loops in interchange, found %d" % long_moves)
    swap = [st for st in fn.body if isinstance(st, ast.If) and len(st.body) == 1 and isinstance(st.body[0], ast.Assign)
            and ast.unparse(st.body[0]) == "%s, %s = (%s, %s)" % (i_, j_, j_, i_)]
    ok = bool(swap) and pred.nf(swap[0].test, lin_eval) == pred.atom_ge(iv - jv - 1)
    ctx.ob("R05.4", FN + ":adjacent-downward", ok, found=[ast.unparse(s) for s in swap] or "no `if j < i: i, j = j, i`",
           required="a downward adjacent move is the exchange of the same pair (i, j swapped)", mod=M,
           node=swap[0] if swap else fn, sig="adjacent-swap")
    ctx.floor("R05.5", 1)
    ctx.floor("R05.6", 1)
    ctx.floor("R05.1", 11)
    ctx.floor("R05.2", 3)
    ctx.floor("R05.3", 10)
    ctx.floor("R05.4", 3)
    ctx.not_decided.append("equality of denotation under monoidal functors (interchange law, cited)")


def _err(nd):
    raise ValueError("not linear: " + ast.unparse(nd))
