"""Engine C: rebuild analysis — what a method returning `type(self)(...)` / `K(...)` / a partner class constructs,
expressed over the constructor parameters of the receiver's class."""
import ast
from .prov import init_prov, analyse_rebuild, BindError, show, E

KEY = ("_name", "_dom", "_cod", "_data", "_dagger", "_mixed")


def subst(e, mapping):
    """replace ('self', a) / ('param', p) leaves"""
    if not isinstance(e, tuple) or not e:
        return e
    if not isinstance(e[0], str):
        return tuple(subst(x, mapping) for x in e)
    if e[0] in ("self", "param") and len(e) == 2 and (e[0], e[1]) in mapping:
        return mapping[(e[0], e[1])]
    if e[0] == "dict":
        return ("dict", {k: subst(v, mapping) for k, v in e[1].items()})
    if e[0] == "raw":
        if len(e) > 2 and e[2]:
            # dependencies of a raw expression are recorded as (name, shown-value): re-show after substitution is not possible; keep
            return e
        return e
    return tuple(subst(x, mapping) if isinstance(x, tuple) else x for x in e)


def simplify(e):
    """tiny normalisation theory (DESIGN §3.3): not not x = x, -(-x) = x, x if c else x = x, self-property chains"""
    if not isinstance(e, tuple) or not e:
        return e
    if not isinstance(e[0], str):
        return tuple(simplify(x) for x in e)
    if e[0] == "dict":
        return ("dict", {k: simplify(v) for k, v in e[1].items()})
    if e[0] == "raw":
        return e
    e = tuple(simplify(x) if isinstance(x, tuple) else x for x in e)
    if e[0] == "op" and e[1] in ("not", "neg") and len(e) == 3 and isinstance(e[2], tuple) and e[2][:2] == ("op", e[1]):
        return e[2][2]
    if e[0] == "op" and e[1] == "not" and len(e) == 3 and e[2] == ("const", False):
        return ("const", True)
    if e[0] == "op" and e[1] == "not" and len(e) == 3 and e[2] == ("const", True):
        return ("const", False)
    if e[0] == "ite" and e[2] == e[3]:
        return e[2]
    return e


class Rebuild:
    def __init__(self, cls, mname, owner, line, target, err, new, own):
        self.cls, self.mname, self.owner, self.line, self.target, self.err, self.new, self.own = cls, mname, owner, line, target, err, new, own

    def where(self):
        return "%s.%s (defined in %s, line %d) -> %s" % (self.cls.q, self.mname, self.owner.q, self.line, self.target.q if self.target else "?")


def rebuilds(m, cls, mname):
    """[Rebuild] for every constructor-returning site of cls.mname as resolved along the MRO; attrs over cls's own parameters"""
    try:
        own = init_prov(m, cls)
    except BindError as e:
        return [Rebuild(cls, mname, cls, 0, cls, "constructor chain of %s does not bind: %s" % (cls.q, e), None, None)]
    owner, res = analyse_rebuild(m, cls, mname)
    out = []
    to_params = {("self", a): v for a, v in own.items()}
    for line, target, err, attrs in res:
        new = None
        if attrs is not None:
            new = {a: simplify(subst(v, to_params)) for a, v in attrs.items()}
        out.append(Rebuild(cls, mname, owner, line, target, err, new, {a: simplify(v) for a, v in own.items()}))
    return out
