"""Behaviour-preserving rewritings of the whole of /repo/discopy, and the checks run on each:  benign.py [--suite] [-j N] [names ...]

Each transformation rewrites every module of a scratch copy of /repo (under a temporary directory, removed afterwards) in a way that cannot
change behaviour; with --suite the pinned test suite is run on the copy to confirm that.  Every check must then give the same verdict as on
the original tree (exit 0, the same KNOWN-FINDING lines): a VIOLATION would be a false alarm, an ANALYSIS-ERROR a check too brittle to use.

  reprint   every module re-printed by ast.unparse (layout, parentheses, comments)
  locals    every local variable of every function renamed
  nparams   every parameter of every nested function renamed
  asserts   `assert True` inserted at the top of every function
  temps     every `return E` rewritten as `result__ = E; return result__`
  annotate  annotations added to every parameter and return
  split     every `a, b = E1, E2` (independent) split into two assignments
  flip      every two-way `if` / conditional expression written with the negated test and the branches exchanged
"""
import ast, glob, os, shutil, subprocess, sys, tempfile
from concurrent.futures import ThreadPoolExecutor
VERIF = os.path.dirname(os.path.dirname(os.path.abspath(__file__)))
sys.path.insert(0, VERIF)
from sa import alpha


def each_module(root, fn):
    for f in glob.glob(os.path.join(root, "discopy", "**", "*.py"), recursive=True):
        t = ast.parse(open(f).read())
        t = fn(t) or t
        ast.fix_missing_locations(t)
        open(f, "w").write(ast.unparse(t) + "\n")


def t_reprint(t):
    return t


def t_locals(t):
    for key, fn in alpha.scopes(t):
        loc = [b for b in alpha.bindings(fn) if b != "_" and not any(isinstance(n, (ast.FunctionDef, ast.ClassDef)) and n.name == b for n in alpha.own_nodes(fn))]
        taken = alpha.free_names(fn) | set(alpha.params_of(fn))
        mapping = {b: b + "_r" for b in loc if b + "_r" not in taken}
        if mapping:
            r = alpha._Rename(mapping)
            fn.body = [r.visit(b) for b in fn.body]


def t_nparams(t):
    for key, fn in alpha.scopes(t):
        if "/#" not in key:
            continue
        kw = any(isinstance(c, ast.Call) and isinstance(c.func, ast.Name) and c.func.id == fn.name and c.keywords for c in ast.walk(t))
        ps = [p for p in alpha.params_of(fn) if p != "self"]
        if kw or not ps or fn.name == "apply":          # diagramize.apply is called with offset= by users
            continue
        mapping = {p: p + "_p" for p in ps}
        r = alpha._Rename(mapping)
        fn.body = [r.visit(b) for b in fn.body]
        a = fn.args
        for x in a.posonlyargs + a.args + a.kwonlyargs + ([a.vararg] if a.vararg else []) + ([a.kwarg] if a.kwarg else []):
            x.arg = mapping.get(x.arg, x.arg)


def t_asserts(t):
    for fn in ast.walk(t):
        if isinstance(fn, ast.FunctionDef):
            k = 1 if fn.body and isinstance(fn.body[0], ast.Expr) and isinstance(fn.body[0].value, ast.Constant) and isinstance(fn.body[0].value.value, str) else 0
            fn.body.insert(k, ast.parse("assert True").body[0])


def t_temps(t):
    class T(ast.NodeTransformer):
        def visit_FunctionDef(self, fn):
            self.generic_visit(fn)
            new = []
            for st in fn.body:
                if isinstance(st, ast.Return) and st.value is not None and not isinstance(st.value, (ast.Name, ast.Constant)):
                    new.append(ast.Assign(targets=[ast.Name(id="result__", ctx=ast.Store())], value=st.value))
                    new.append(ast.Return(value=ast.Name(id="result__", ctx=ast.Load())))
                else:
                    new.append(st)
            fn.body = new
            return fn
    return T().visit(t)


def t_annotate(t):
    for fn in ast.walk(t):
        if isinstance(fn, ast.FunctionDef):
            for a in fn.args.args + fn.args.kwonlyargs:
                if a.arg not in ("self", "cls") and a.annotation is None:
                    a.annotation = ast.Constant(value="object")
            if fn.returns is None and fn.name != "__init__":
                fn.returns = ast.Constant(value="object")


def t_split(t):
    alpha.split_tuple_assigns(t)


def t_flip(t):
    class T(ast.NodeTransformer):
        def visit_If(self, node):
            self.generic_visit(node)
            if node.orelse and not (len(node.orelse) == 1 and isinstance(node.orelse[0], ast.If)):
                return ast.If(test=ast.UnaryOp(op=ast.Not(), operand=node.test), body=node.orelse, orelse=node.body)
            return node

        def visit_IfExp(self, node):
            self.generic_visit(node)
            if not isinstance(node.orelse, ast.IfExp):
                return ast.IfExp(test=ast.UnaryOp(op=ast.Not(), operand=node.test), body=node.orelse, orelse=node.body)
            return node
    return T().visit(t)


def t_eqswap(t):
    """a == b  ->  b == a (and !=) where both sides are names, attributes, constants, subscripts or calls of len: equality is symmetric for every value the package compares"""
    def simple(e):
        return isinstance(e, (ast.Name, ast.Attribute, ast.Constant, ast.Subscript, ast.Tuple)) or (isinstance(e, ast.Call) and ast.unparse(e.func) == "len")

    class T(ast.NodeTransformer):
        def visit_Compare(self, n):
            self.generic_visit(n)
            if len(n.ops) == 1 and isinstance(n.ops[0], (ast.Eq, ast.NotEq)) and simple(n.left) and simple(n.comparators[0]):
                return ast.Compare(left=n.comparators[0], ops=n.ops, comparators=[n.left])
            return n
    return T().visit(t)


def t_ifstmt(t):
    """x = a if c else b  ->  if c: x = a  else: x = b   (single Name target)"""
    class T(ast.NodeTransformer):
        def visit_Assign(self, n):
            if len(n.targets) == 1 and isinstance(n.targets[0], ast.Name) and isinstance(n.value, ast.IfExp):
                mk = lambda v: ast.Assign(targets=[ast.Name(id=n.targets[0].id, ctx=ast.Store())], value=v)
                return ast.If(test=n.value.test, body=[mk(n.value.body)], orelse=[mk(n.value.orelse)])
            return n
    return T().visit(t)


def t_ltswap(t):
    """a < b -> b > a  (and <=, >, >=) for single comparisons"""
    FLIP = {ast.Lt: ast.Gt, ast.Gt: ast.Lt, ast.LtE: ast.GtE, ast.GtE: ast.LtE}

    class T(ast.NodeTransformer):
        def visit_Compare(self, n):
            self.generic_visit(n)
            if len(n.ops) == 1 and type(n.ops[0]) in FLIP:
                return ast.Compare(left=n.comparators[0], ops=[FLIP[type(n.ops[0])]()], comparators=[n.left])
            return n
    return T().visit(t)


def t_noelse(t):
    """if c: ...return/raise  else: rest   ->   if c: ...return/raise;  rest   (the else of a branch that always leaves)"""
    def leaves(body):
        return bool(body) and isinstance(body[-1], (ast.Return, ast.Raise, ast.Continue, ast.Break))
    for node in ast.walk(t):
        for field in ("body", "orelse", "finalbody"):
            body = getattr(node, field, None)
            if not (isinstance(body, list) and body and all(isinstance(s, ast.stmt) for s in body)):
                continue
            new = []
            for st in body:
                if isinstance(st, ast.If) and st.orelse and leaves(st.body) and not (len(st.orelse) == 1 and isinstance(st.orelse[0], ast.If)):
                    rest, st.orelse = st.orelse, []
                    new.append(st)
                    new.extend(rest)
                else:
                    new.append(st)
            setattr(node, field, new)


def t_addelse(t):
    """if c: ...return;  rest   ->   if c: ...return  else: rest   (when the `if` is followed by the rest of the block and has no else)"""
    def leaves(body):
        return bool(body) and isinstance(body[-1], (ast.Return, ast.Raise))
    for node in ast.walk(t):
        if isinstance(node, ast.FunctionDef):
            body = node.body
            for k, st in enumerate(body):
                if isinstance(st, ast.If) and not st.orelse and leaves(st.body) and k + 1 < len(body) and k > 0:
                    st.orelse = body[k + 1:]
                    del body[k + 1:]
                    break


def t_reorder(t):
    """two adjacent assignments to plain names that do not read each other's target (and call nothing that could have an effect) are exchanged"""
    def names(e, ctx):
        return {n.id for n in ast.walk(e) if isinstance(n, ast.Name) and isinstance(n.ctx, ctx)}

    def simple(st):
        return isinstance(st, ast.Assign) and len(st.targets) == 1 and isinstance(st.targets[0], ast.Name) and alpha._pure_looking(st.value) and \
            not any(isinstance(c, (ast.Call, ast.Lambda, ast.ListComp, ast.GeneratorExp, ast.DictComp, ast.SetComp)) for c in ast.walk(st.value))
    for node in ast.walk(t):
        for field in ("body", "orelse"):
            body = getattr(node, field, None)
            if not (isinstance(body, list) and len(body) > 1 and all(isinstance(s, ast.stmt) for s in body)):
                continue
            k = 0
            while k + 1 < len(body):
                a, b = body[k], body[k + 1]
                if simple(a) and simple(b) and a.targets[0].id != b.targets[0].id and a.targets[0].id not in names(b.value, ast.Load) and b.targets[0].id not in names(a.value, ast.Load):
                    body[k], body[k + 1] = b, a
                    k += 2
                else:
                    k += 1


def t_range(t):
    """for i, _ in enumerate(X)  ->  for i in range(len(X))"""
    for n in ast.walk(t):
        if isinstance(n, ast.For) and isinstance(n.target, ast.Tuple) and len(n.target.elts) == 2 and isinstance(n.target.elts[1], ast.Name) and n.target.elts[1].id == "_" \
                and isinstance(n.iter, ast.Call) and ast.unparse(n.iter.func) == "enumerate" and len(n.iter.args) == 1:
            n.target = n.target.elts[0]
            n.iter = ast.Call(func=ast.Name(id="range", ctx=ast.Load()), args=[ast.Call(func=ast.Name(id="len", ctx=ast.Load()), args=[n.iter.args[0]], keywords=[])], keywords=[])


def t_fstring(t):
    """'...{}...'.format(a, b)  ->  f'...{a}...{b}...'   (what pyupgrade does; positional `{}` fields only, no starred arguments)"""
    class T(ast.NodeTransformer):
        def visit_Call(self, n):
            self.generic_visit(n)
            if isinstance(n.func, ast.Attribute) and n.func.attr == "format" and isinstance(n.func.value, ast.Constant) and isinstance(n.func.value.value, str) and not n.keywords \
                    and not any(isinstance(a, ast.Starred) for a in n.args):
                tmpl = n.func.value.value
                parts = tmpl.split("{}")
                if len(parts) - 1 != len(n.args) or "{" in tmpl.replace("{}", "") or "}" in tmpl.replace("{}", ""):
                    return n
                vals = []
                for k, p_ in enumerate(parts):
                    if p_:
                        vals.append(ast.Constant(value=p_))
                    if k < len(n.args):
                        vals.append(ast.FormattedValue(value=n.args[k], conversion=-1))
                return ast.JoinedStr(values=vals)
            return n
    return T().visit(t)


ALL = {"fstring": t_fstring, "reorder": t_reorder, "range": t_range, "ltswap": t_ltswap, "noelse": t_noelse, "addelse": t_addelse, "eqswap": t_eqswap, "ifstmt": t_ifstmt, "reprint": t_reprint, "locals": t_locals, "nparams": t_nparams, "asserts": t_asserts, "temps": t_temps, "annotate": t_annotate, "split": t_split, "flip": t_flip}


def main():
    args = sys.argv[1:]
    suite = "--suite" in args
    args = [a for a in args if a != "--suite"]
    jobs = 8
    if "-j" in args:
        jobs = int(args[args.index("-j") + 1])
        del args[args.index("-j"):args.index("-j") + 2]
    names = args or list(ALL)
    props = sorted(f[:-3].upper() for f in os.listdir(os.path.join(VERIF, "sa", "rules")) if len(f) == 6 and f.startswith("c") and f[1:3].isdigit())
    base = {}
    for p in props:
        o = tempfile.mkdtemp(prefix="benign_o_")
        r = subprocess.run([sys.executable, "-m", "sa.check", p, "--out", o], cwd=VERIF, capture_output=True, text=True)
        shutil.rmtree(o, ignore_errors=True)
        base[p] = (r.returncode, sorted(l.split(" at ")[0] for l in r.stdout.splitlines() if l.startswith("KNOWN-FINDING")))
    bad = 0
    for name in names:
        tmp = tempfile.mkdtemp(prefix="benign_%s_" % name)
        try:
            shutil.copytree("/repo/discopy", os.path.join(tmp, "discopy"), ignore=shutil.ignore_patterns("__pycache__"))
            shutil.copytree("/repo/test", os.path.join(tmp, "test"), ignore=shutil.ignore_patterns("__pycache__"))
            each_module(tmp, ALL[name])
            s_ok = None
            if suite:
                s = subprocess.run([sys.executable, os.path.join(VERIF, "tools", "suite.py"), tmp], capture_output=True, text=True)
                s_ok = s.returncode == 0

            def one(p):
                r = subprocess.run([sys.executable, "-m", "sa.check", p, "--repo", tmp, "--out", os.path.join(tmp, "_o")], cwd=VERIF, capture_output=True, text=True)
                return p, (r.returncode, sorted(l.split(" at ")[0] for l in r.stdout.splitlines() if l.startswith("KNOWN-FINDING"))), [l for l in r.stdout.splitlines() if l.startswith(("  R", "ANALYSIS"))][:2]
            with ThreadPoolExecutor(jobs) as ex:
                res = list(ex.map(one, props))
            diff = [(p, got, det) for p, got, det in res if got != base[p]]
            bad += len(diff)
            print("%-9s suite=%s checks with another verdict: %d" % (name, {None: "-", True: "pass", False: "FAIL"}[s_ok], len(diff)))
            for p, got, det in diff:
                print("    %s exit %d %s" % (p, got[0], det))
        finally:
            shutil.rmtree(tmp, ignore_errors=True)
    print("benign transformations: %d, verdict changes: %d" % (len(names), bad))
    return 1 if bad else 0


if __name__ == "__main__":
    sys.exit(main())
