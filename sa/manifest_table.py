"""Source of MANIFEST.json (tools/mkmanifest.py).  pid -> (technique, level text, level note, design ref)"""
TB = ("Trusted: CPython's ast module; the transfer functions of sa/ (Python slice/list semantics); the generic-instance "
      "argument (analysed code is parametric in type contents); cited theorems (DESIGN §9). discopy is never imported or run.")
CHECKS = {
    "C05": ("abstract evaluation of rewriting.interchange on generic instances (words over type atoms, linear offsets) + predicate normal forms + CFG dominance",
            "Decides, for all inputs, the structural clauses of C05 from the syntax tree of rewriting.interchange: branch predicates equal "
            "the interval-disjointness spec, else raises InterchangerError, exchanged layers/offsets/boxes equal the spec on the generic "
            "instance of each configuration and compose with prefix/suffix, index guard dominates indexing, long moves telescope. "
            "Functor-invariance of the result is the interchange law (cited, not re-proved).", TB, "DESIGN.md §4 C05"),
}
CHECKS["C01"] = ("census of scan-bypassing constructor calls over the resolved class model + per-site discharge by abstract evaluation on generic instances; CFG dominance for guards",
    "Decides for all inputs that every construction bypassing the run-time scan (cat.Arrow(_scan=False), Diagram(layers=...)) satisfies the representation invariant RI1-RI4 "
    "(boxes/offsets/layers agree, layers compose from dom to cod), that the two scanning constructors refuse ill-typed requests including out-of-range offsets, and that "
    "composition is guarded. A new unscanned site that matches no discharge pattern makes the run analysis-broken (exit 2). Not decided: user subclasses, user-supplied functor images.",
    TB, "DESIGN.md §4 C01")
CHECKS["C04"] = ("abstract evaluation of the functor scan loop on a generic iteration (loop invariant), isinstance-dispatch analysis over the class hierarchy, shape rules modulo renaming",
    "Decides from the source of the three Functor.__call__ methods, rigid.cups/caps and Ob/Ty adjoints: fold-by-then, the scan-splice loop invariant result.cod = F(scan), "
    "dispatch order/totality and the structural mapping of swaps, cups, caps, daggers, sums, bubbles, the winding homomorphism, and the cups index chain on symbolic multi-wire types. "
    "With C02's laws these give functoriality; user-supplied images are checked at run time by >> (not decided here).", TB, "DESIGN.md §4 C04")
CHECKS["C06"] = ("predicate normal forms (linear inequalities) compared between normalize's trigger and interchange's first exchange test; def-use and CFG dominance rules on normalize / normal_form / foliate",
    "Strategy conformance, not termination: decides that normalize applies interchanges in one direction only (the hypothesis of the Delpeuch-Vicary termination/confluence theorem), that every "
    "yielded step is a single interchange of the previous value, that the pass loop ends only at a fixed point, and that normal_form's cycle check dominates acceptance and raises "
    "NotImplementedError. Termination, idempotence and canonicity follow from the cited theorem and are not decided by the analysis.", TB, "DESIGN.md §4 C06")
CHECKS["C07"] = ("predicate normal forms with opaque type-equality literals for follow_wire / find_snake; structural accounting rules for unsnake; parallel-slice rule for the deletion",
    "Decides the structural clauses behind snake removal: the three-way split of follow_wire equals the interval spec; a pair is yankable only when the cap's leg enters the opposite leg of a "
    "Cup AND the surviving wire keeps its type (so deletion composes and well-typed inputs never raise AxiomError); each obstruction loop makes one interchange, one yield and one index "
    "update; the deletion is a parallel cut under checked >>; Cup/Cap refuse non-adjoint legs; the obstructions recorded for the other side are re-indexed after each move; the search for a yankable pair is complete "
    "(every pair meeting the conditions is returned). Not decided: denotational equality (snake equations, cited).",
    TB, "DESIGN.md §4 C07")
CHECKS["C10"] = ("abstract evaluation of Diagram.swap on symbolic types in three emptiness cases, symbolic row-by-row scan of the base case, one generic iteration of permutation (parallel rearrangement), parametricity use-analysis",
    "Decides for all types and permutations: swap(left, right) is typed left@right -> right@left on distinct wire atoms (hence, by parametricity and induction on |left|, realises exactly the block "
    "permutation), permutation's layer and its update of `perm` are the same cut-and-paste (invariant: wire at p ends at perm[p]), non-permutations and length mismatches are refused, and each "
    "diagram class (rigid, tensor, circuit, zx) passes its own Diagram/Swap classes.", TB, "DESIGN.md §4 C10")
CHECKS["C18"] = ("symbolic evaluation of biclosed box signatures, functor routing and rigid methods on adjoint words in all emptiness cases; generic-iteration evaluation of eager_parse; guard/def-use rules for CFG.generate; shape rules for cat2ty/tree2diagram",
    "Decides type preservation of the biclosed->rigid translation for FA, BA, FC, BC, FX, BX and Curry on symbolic multi-wire (possibly empty) types, with box signatures, routing and slash images all "
    "extracted from source; decides that eager_parse only contracts adjacent adjoints with a partitioning layer and returns only the target type, that CFG.generate only applies the grammar's "
    "productions to a matching leftmost symbol and yields closed sentences, and the slash directions of cat2ty. Not decided: which derivations a random CFG run produces.", TB, "DESIGN.md §4 C18")
CHECKS["C02"] = ("abstract evaluation of then/tensor on generic diagrams (functional summaries); shape rules for sums; abstract construction of generic box instances and abstract execution of every dagger (engine C′)",
    "Decides that the functional summaries of then / tensor / dagger / slicing / id on (dom, cod, boxes, offsets) equal the free strict-monoidal algebra (the laws follow by list algebra and are listed, not re-executed), "
    "that sums distribute term-wise in left-major order with typed units, and that for every concrete box class of the package and every combination of its finite constructor parameters the dagger binds against the "
    "constructor, swaps dom/cod and is involutive on name, types, data, dagger flag and mixedness. The dagger of bubbles is a recorded known finding.", TB, "DESIGN.md §4 C02")
CHECKS["C03"] = ("attribute-flow analysis of __eq__/__hash__/__repr__ resolved along the MRO, on constructor-parameter access paths obtained from constructor provenance; format-string branch enumeration for repr syntax",
    "Decides for every class of cat, monoidal, rigid: __eq__ compares exactly the structural fields; defining __eq__ comes with __hash__; everything reaching the hash is determined by what __eq__ compares; "
    "__repr__ is balanced constructor syntax of the class whose keywords are constructor parameters and shows every path __eq__ compares; empty / one-box arrows print as identity / the box. "
    "Not decided: that eval(repr(x)) runs in a namespace with the right names; cross-class equality beyond box vs one-box diagram.", TB, "DESIGN.md §4 C03")
CHECKS["C08"] = ("axis-layout typing of numpy code: block-wise evaluation of moveaxis index maps as bijections of axis blocks; contraction-count and guard rules",
    "Decides for symbolic (empty, multi-wire) types that Tensor.then/tensor/dagger/swap/id/cups/caps produce arrays whose axis layout is [dom | cod] of the stated type with the right wiring "
    "(contraction of |cod| axes under the cod==dom guard, Kronecker re-ordering bijection, conjugated transpose, block exchange of the identity, delta cups). Numeric values are not examined.", TB, "DESIGN.md §4 C08")
CHECKS["C09"] = ("axis-layout loop invariant of tensor.Functor.__call__ by abstract evaluation of one generic box step and one generic swap step; dispatch analysis; flag-dagger typestate of every reader of a box's array",
    "Decides that the contraction loop keeps the invariant 'array layout = [F(dom) | F(scan)]' (hence computes the layer-by-layer composite for every diagram), the dispatch order/totality and structural "
    "images, and that every reader of a box's array handles the dagger flag first (functor, to_tn). Spider arrays are deltas. Numeric values are not examined.", TB, "DESIGN.md §4 C09")
CHECKS["C14"] = ("abstract construction of generic box instances and abstract execution of every subs / lambdify as resolved along the MRO (engine C′); provenance and shape rules for free_symbols and the diagram-level rebuilds",
    "Decides reconstruction completeness: for every concrete box class and every combination of its finite constructor parameters, subs and lambdify (including the inherited generic rebuilds) either return the box "
    "or bind against its constructor, keep name, dom, cod, dagger flag and mixedness, and carry rsubs / lambdify applied to the old data; free_symbols comes from the same data the arrays read and is the union "
    "over boxes; diagrams rebuild layer by layer with the same whiskers. Numeric commutation on concrete floats (sympy/numpy interplay) is not decided.", TB, "DESIGN.md §4 C14")
CHECKS["C11"] = ("constant folding of the literal gate tables and closed-form array properties lifted from the syntax tree (whitelisted numeric vocabulary) compared with tket reference matrices on sample phases; abstract execution of rotation daggers; flag-dagger typestate of array readers",
    "Decides that every literal gate table and closed-form rotation array of gates.py, read in the [in, out] order in which arrays are interpreted, equals the tket matrix of that name (phases in full turns), that Controlled builds "
    "diag(1, U), that self-adjoint flags sit only on Hermitian tables, that rotations dagger by phase negation with M(-φ) = M(φ)†, that every reader of a flag-daggered gate's array handles the flag, and that kets/bras/bits are basis "
    "tensors. With C08/C09 this gives the unitary of a pure circuit and its dagger; rewire is folded on all pairs of distinct positions up to width 5 (7 in the thorough tier) against the gate conjugated by the permutation. "
    "Not decided: floating-point error.", TB, "DESIGN.md §4 C11")
CHECKS["C15"] = ("shape rules for the product rule; constant folding of each rotation class's grad method as a closed term in a two-semantics reference algebra (pure matrices / doubled maps with Born rule) compared with the 5-point-stencil derivative of the class's own closed-form array; abstract execution of scalar gradients",
    "Decides the product-rule shape of Diagram.grad and the jacobians, totality and guards of the per-class grad methods, and — for Rx, Ry, Rz, CU1, CRz, CRx in pure and mixed mode — that the gradient term evaluates to the derivative of the "
    "class's own array (shift and factor constants), and that mixed scalars keep mixedness. Known findings (test-pinned): pure scalars in mixed mode, ZX spider gradients under the standard interpretation. "
    "Numeric derivatives of arbitrary circuits follow from these and are not decided.", TB, "DESIGN.md §4 C15")
CHECKS["C16"] = ("constant folding of every gate2zx entry as a closed ZX term in a reference algebra (standard interpretation, phases in full turns) compared for proportionality with tket reference matrices on sample phases; abstract execution of generator daggers",
    "Decides that each entry of zx.gate2zx (kets, bras, Rz, Rx, CRz, CRx, CU1, H, X, Y, Z, CZ, CX, scalars) denotes the gate up to a non-zero scalar with the right arity, that circuit2zx is the rigid functor qubit -> one wire, "
    "and that spiders / scalars / H dagger as the standard interpretation requires. Composites follow from functoriality (C04, C09).", TB, "DESIGN.md §4 C16")
CHECKS["C12"] = ("layout/shape rules for the CQMap constructors, abstract evaluation of the swap network of CQMap.tensor on positional wire atoms, dispatch analysis of cqmap.Functor, a two-kind (CQ / Dim) inference over cqmap.py",
    "Decides the c·q·q layouts of pure / measure / discard / encode / cups, the all-equal delta arity of measure, the wire routing of CQMap.tensor, the order and totality of the per-box dispatch with partner daggers, that every CQMap "
    "constructor call passes the kind of type its callee reads, the Born rule on scalars, and the circuit-side plumbing (is_mixed, init_and_discard, get_counts, measure). Trace preservation and numeric agreement of whole circuits are not decided.",
    TB, "DESIGN.md §4 C12")
CHECKS["C13"] = ("effect typing of the to_tk handlers against abstractly constructed box signatures (len(qubits), len(bits) and the number of outputs of the classical post-processing; loops summarised by verified growth), "
    "symbolic case analysis of the register arithmetic of prepare_qubits / prepare_bits with a sortedness assume/guarantee check, positional effect analysis of from_tk.make_units_adjacent on symbolic rows, "
    "writer/reader factor agreement, MRO-resolved dispatch analysis, batch-loop state discipline, def-use ordering of rename_units, shape comparison of the Born rule and the pre/postludes",
    "Decides the angle convention of export and import, the invariants len(qubits) / len(bits) / |post_processing.cod| = numbers of qubit / bit wires for every handler and box signature, that the registers renamed by prepare_* are those "
    "whose list entries are shifted (and that lists split by value stay sorted), that a measured bit enters the post-processing at its wire position, that from_tk maps registers to wires without the post-selected ones and moves the second "
    "qubit of a gate right after the first, that flag-daggered gates are exported as dg operations and read back, batch loops, the Born rule, the dispatch for 20 box classes, init_and_discard / remove_ket1 / the from_tk postlude, and that "
    "rename_units re-keys the post-selection simultaneously. Equality of output distributions on a simulator, gates on three or more qubits in from_tk and Swap boxes are not decided.",
    TB, "DESIGN.md §4 C13")
CHECKS["C19"] = ("typestate / partition analysis of the closures of Function.then / tensor / id on symbolic wire rows (words + linear facts), finite-domain folding of tuplify / untuplify, "
    "reference interpretation of the structural constructors on wire labels for bounded widths, shape comparison of Diagram.__call__, dependency on the functor-wiring rules of C04",
    "Decides that raw results pass through tuplify before being concatenated or splatted and every closure returns a raw result, that `self` / `other` receive exactly their own wires (symbolic widths incl. 0 and 1) "
    "with outputs in order, the arity guards, that Diagram.__call__ is the functor into Functions on the boxes' own functions, and that SWAP / COPY / DISCARD and Swap(l, r) / Copy(n) / Discard(n) realise the block "
    "permutation / duplication / deletion for all widths up to the bound (quick 3, thorough 5). User functions returning a tuple as one value and widths above the bound are not decided.",
    TB, "DESIGN.md §4 C19")
CHECKS["C20"] = ("case analysis of make_space / add_box with abscissae as linear forms over the reals (identities between guards, pads, limits and spreads), slice-partition typing of the row splice, "
    "height ordering along each kind of edge, cross-site agreement of node keys, override/signature check of the back-ends, None-flow and writer/reader agreement of diagramize / nx2diagram",
    "Decides the census of nodes and edges of diagram2nx, the splice of the row of open wires, that every shift translates a closed half-plane of all nodes by exactly the tested overlap, the formulas for half width, x_pos, "
    "the centred unit-spaced cod wires with margin >= 1, verticality of dom / output nodes, strictly decreasing heights, consistent node keys at all 25 construction sites, that both back-ends override every primitive, and the "
    "diagramize / nx2diagram agreement (offset normalisation, whiskering, splice). The rendered output of matplotlib / TikZ and non-planar uses of diagramize are not decided.",
    TB, "DESIGN.md §4 C20")
CHECKS["C17"] = ("writer/reader convention agreement (phases, vertex types, Hadamard edges, scalars), slice-partition typing of the (vertex, flag) row of to_pyzx, positional effect analysis of from_pyzx.move on symbolic rows "
    "(the recorded row against the permutation realised by the swaps), statement-shape comparison of the gathering / vertex / output loops, dominating refusal guards",
    "Decides that export doubles and import halves phases, the colour and Hadamard-edge conventions on all four sites, the splice of the row of to_pyzx for spiders / swaps / H, inputs and outputs in wire order, the refusals, "
    "that `move` records exactly the permutation its swaps realise with the moved wire keeping its label, that inputs are sorted and gathered right of the first, the legs / whiskers / Hadamards of each imported vertex and that outputs are "
    "routed from a leg not yet placed. pyzx's own tensor semantics, graphs with parallel edges and the scalar on import are not decided; pyzx is never imported.",
    TB, "DESIGN.md §4 C17")
# rules added after the blind-spot survey (DESIGN.md §15); appended to the level text of the property
ADDENDA = {
    "C02": "Also: arrow[:i] >> arrow[i:] recomposes for every depth i (bounded fold of cat.Arrow.__getitem__ on 0-3 boxes, i in -5..5); every Sum.upgrade keeps terms, dom and cod.",
    "C03": "Also: each stored constructor parameter is printed in its own positional / keyword place (incl. optional tails and names computed in __init__); __eq__ reads fields of `other` only after a positive class test.",
    "C05": "Also: a result built without the precomputed layers (the constructor rescans) is judged on boxes and offsets alone.",
    "C09": "Also: the contractor path (to_tn wiring, result typed by the diagram), Box.array layout, Tensor.zeros, Diagram.spiders, and the typing of bubbles by their inside in cat / monoidal / tensor.",
    "C10": "Also: every Swap box class initialises its Swap base on (left, right) and re-types itself by its own name / dom / cod; int arguments are upgraded only when they are not types; default domains replace only None.",
    "C11": "Also: scalars are self-adjoint exactly when real and dagger to the conjugate; digits / bits are states by default and turn their type around as effects; controlled gates are built in a complex array; "
           "depends on C12 R12.6 (a pure circuit, swaps included, is not mixed).",
    "C12": "Also: overwriting measurements discard the old bits exactly then; CQMap.__init__ / utensor / __add__; the pure branch of Circuit.measure; get_counts entries; index2bitstring is a bijection onto the bitstrings "
           "(folded for lengths 0-4); Ty.count (folded); mode of sums; functor choice; mixedness of Scalar / MixedScalar / Sqrt by abstract construction; mixedness of swaps.",
    "C13": "Also: R13.12 Ty.count (C12); R13.13 the Swap handler and the swap helper; R13.14 the counts pipeline of tk.Circuit.get_counts (options, normalise before post-select, filter, key, scale); "
           "R13.15 Measure(qubit, bit) per wire, post-selected digit, discarded bits; composability of every post_process call; exportable daggers of table gates; from_tk wires and make_units_adjacent start / iteration.",
    "C14": "Also: R14.4 a box is returned unchanged only when no substituted symbol occurs in it; sympy.lambdify is called (symbols, expression) in every rebuild and in Tensor.lambdify.",
    "C15": "Also: jacobians of Tensor / Diagram / Circuit (prelude, row, early exits), Tensor.grad and Box.grad functions, the inner derivative of every rotation / spider rule, helper scalar()/sqrt(), the projector helper, "
           "type of ClassicalGate.grad; depends on C09 R09.7 (a gradient bubble has the type of its box).",
    "C16": "Also: R16.5 the generators (Z / X / Y(m, n, phase=0): legs, phase as data; H 1 -> 1; scalars) are built the way the reference algebra reads them; every case of gate2zx is selected by a positive class test.",
    "C17": "Also: the helpers move / make_wires_adjacent are called and return in the order their callers unpack; depends on C16 R16.5.",
    "C18": "Also: every rule box and Curry is typed by its computed (dom, cod) in this order; Curry keeps diagram / n_wires / left.",
    "C19": "Also: Id(n) is the diagram on n wires without boxes and Diagram.id returns it; type errors in the folded constructors are reported as such.",
    "C20": "Also: which ports of a bubble border are joined to the box node; nx2diagram's classification of nodes by kind and its start; diagramize refuses exactly ill-typed wires, numbers its applications, hands the factories on.",
}
RULE_N = (" Rule N (every property): every name read by a function the check analysed, or reachable from one by name inside the anchor files, is bound (decided with the standard symtable module; "
          "global / nonlocal / del / star imports / exec make the rule an analysis error).")
for _pid in list(CHECKS):
    _t = CHECKS[_pid]
    CHECKS[_pid] = (_t[0], _t[1] + (" " + ADDENDA[_pid] if _pid in ADDENDA else "") + RULE_N, _t[2], _t[3])
NOT_YET = "check not built yet in this round (static rules designed in DESIGN.md §4; will be claimed when the rule module lands)"
NOT_APPLICABLE = {("C%02d" % i): NOT_YET for i in range(1, 21) if ("C%02d" % i) not in CHECKS}
NOTES = ("All checks are static analyses of /repo/discopy's source (python -m sa.check <id>); exit 0 / 1 (VIOLATION) / 2 (ANALYSIS-ERROR). "
         "Known findings: /verif/known_findings.json. Checker validation corpus: python -m sa.selftest. "
         "The thorough tier decides the same rules with the larger bounds where a rule is bounded (rewire widths 7, cartesian widths 5) and additionally runs the property's corpus of variants "
         "(semantic single edits that must be reported, behaviour-preserving rewrites that must stay silent) on scratch copies of /repo, recording the matrix under coverage.checker_validation; "
         "tools/benign.py re-runs all checks on sixteen behaviour-preserving rewritings of the whole package; tools/refactor_eval.py --recheck re-runs them on the 120 behaviour-preserving "
         "refactorings written by independent sub-agents (/verif/refactors, DESIGN.md section 16). Before any rule runs the parsed tree is normalised by equivalences that undo common refactorings "
         "(sa/alpha.py, sa/helpers.py; tables regenerated by tools/mklocals.py after a change of /repo has been confirmed).")
