"""Prototype R20.3/R20.4: make_space pads/guards/shifts and the spread of the new box agree (separation >= 1)."""
import ast, sys
from .lin import Lin, Facts
from .words import Seq, Seg, Atom, Unlocatable
from .beval import Evaluator, Obj, Box, Closure, Unsupported, Undecided, assume
from .model import Model
from .c07 import cond_lins, inner


class Pos:
    """pos[node] -> (x(node), y(node)) as opaque reals"""
    def __getitem__(self, node):
        k = node.f["k"]
        return (Lin.var("x[%r]" % (k,)), Lin.var("y[%r]" % (k,)))


class Ev20(Evaluator):
    def index(self, v, idx, n=None):
        if isinstance(v, Pos):
            return v[idx]
        return super().index(v, idx, n)


def check(out=print, root="/repo/discopy"):
    M = Model(root)
    top = M.func("discopy.drawing.diagram2nx")
    ms, ab = inner(top, "make_space"), inner(top, "add_box")
    fails = []
    for n_cod_case, ncod_facts in (("|cod|>=1", lambda n: Facts([n - 1])), ("|cod|=0", lambda n: Facts().with_eq(n, 0))):
        COD, DOM = Atom("cod"), Atom("dom")
        n, d = COD.length, DOM.length
        facts = ncod_facts(n).extend(d - 1, Lin.var("off"), Lin.var("|scan|") - Lin.var("off") - d)
        ev = Ev20(facts, "make_space")
        SCAN = Atom("scan", elem=lambda k: Obj("Node", k=repr(k)))
        env = {"scan": Seq.atom(SCAN), "box": Box("box", Seq.atom(DOM), Seq.atom(COD)), "off": Lin.var("off"), "pos": Pos()}
        # straight-line part: half_width and x_pos for a box with a non-empty domain
        for st in ms.body:                       # straight-line prefix, in order (temporaries included)
            if isinstance(st, ast.Assign):
                ev.run([st], env)
            elif isinstance(st, ast.If) and "box.dom" in ast.unparse(st.test):
                break
        half = env["half_width"]
        want_half = (n - 1) / 2 + 1 if n_cod_case == "|cod|>=1" else Lin.of(1)
        if not ev.facts.eq(half, want_half):
            fails.append("R20.4 [%s] half_width = %r, spec %r" % (n_cod_case, half, want_half))
        # spread of the cod wires in add_box
        spread_expr = next((x for x in ast.walk(ab) if isinstance(x, ast.IfExp) and "x_pos" in ast.unparse(x.orelse)), None)
        if spread_expr is None:
            fails.append("R20.4 cannot find the position formula of the cod wires"); continue
        if n_cod_case == "|cod|>=1":
            env2 = dict(env, x_pos=Lin.var("x_pos"), i=Lin.var("i"))
            first = Lin.of(ev.ev(spread_expr.orelse, dict(env2, i=Lin.of(0)))); last = Lin.of(ev.ev(spread_expr.orelse, dict(env2, i=n - 1)))
            S_left, S_right = Lin.var("x_pos") - first, last - Lin.var("x_pos")
            if not (ev.facts.eq(S_left, S_right)):
                fails.append("R20.4 cod wires are not centred on x_pos: %r left, %r right" % (S_left, S_right))
            if not ev.facts.nonneg(half - S_left - 1):
                fails.append("R20.4 separation half_width - spread = %r is not >= 1" % (half - S_left,))
        # x_pos for non-empty dom: convex combination of the extreme dom wires
        else_branch = next(s for s in ms.body if isinstance(s, ast.If) and "box.dom" in ast.unparse(s.test)).orelse
        ev.run(else_branch, env)
        xl, xr = Lin.var("x['off']"), Lin.var("x['off + |dom| - 1']")
        xp = env["x_pos"]
        coeffs = {k: v for k, v in xp.t.items()}
        if xp.c != 0 or sum(coeffs.values()) != 1 or any(v < 0 for v in coeffs.values()) or not set(coeffs) <= {"x['off']", "x['off + |dom| - 1']"}:
            fails.append("R20.4 x_pos = %r is not a convex combination of the extreme domain wires" % (xp,))
        # pads and guards
        for side, st in zip(("left", "right"), [s for s in ms.body if isinstance(s, ast.If) and "half_width" in ast.unparse(s.test)]):
            guard = st.test.values[-1]
            saved = ev.facts
            for lead in st.test.values[:-1]:
                if isinstance(lead, ast.Name):
                    ev.facts = ev.facts.extend(Lin.of(env[lead.id]) - 1)      # truthy non-negative int
                else:
                    assume(ev, lead, True, env)
            g = cond_lins(ev, guard, env)                      # [Lin >= 0] with strictness folded in as -1
            ev.run([s for s in st.body if isinstance(s, ast.Assign)], env)
            pad, limit = env["pad"], env["limit"]
            if g is None or len(g) != 1 or not ev.facts.eq(g[0] + 1, pad):
                fails.append("R20.4 %s: guard %r and pad %r disagree (pad must be exactly the overlap the guard tests)" % (side, g, pad))
            want = (limit - (xp - half)) if side == "left" else ((xp + half) - limit)
            if not ev.facts.eq(pad, want):
                fails.append("R20.4 %s pad = %r, spec %r" % (side, pad, want))
            loop = next(s for s in st.body if isinstance(s, ast.For))
            cond = loop.body[0].test
            ok_shape = isinstance(cond, ast.Compare) and ast.unparse(cond.left) == "position[0]" and ast.unparse(cond.comparators[0]) == "limit" \
                and isinstance(cond.ops[0], ast.LtE if side == "left" else ast.GtE)
            if not ok_shape:
                fails.append("R20.3 %s shift predicate `%s` must be x-only and inclusive of the limiting node" % (side, ast.unparse(cond)))
            upd = loop.body[0].body[0]
            txt = ast.unparse(upd.value)
            want_txt = "(pos[node][0] %s pad, pos[node][1])" % ("-" if side == "left" else "+")
            if txt != want_txt:
                fails.append("R20.3 %s shift is `%s`, spec `%s`" % (side, txt, want_txt))
            ev.facts = saved
    for f in fails:
        out("VIOLATION-CANDIDATE " + f)
    if not fails:
        out("  R20.3/4 ok: half_width, centred spread with separation >= 1, convex x_pos, pads = guarded overlaps, inclusive x-only monotone shifts")
    return 1 if fails else 0


if __name__ == "__main__":
    sys.exit(check())
