"""Spike engine A+C: class table, C3 MRO, __init__-chain provenance, rebuild() of subs/dagger."""
import ast, os, sys, itertools
ROOT = '/repo/discopy'
MODS = {}
for dp, dn, fns in os.walk(ROOT):
    for f in fns:
        if f.endswith('.py'):
            p = os.path.join(dp, f); name = 'discopy' + p[len(ROOT):-3].replace('/', '.')
            if name.endswith('.__init__'): name = name[:-9]
            MODS[name] = ast.parse(open(p).read())

class Cls:
    def __init__(s, mod, node): s.mod, s.node, s.name = mod, node, node.name; s.q = mod + '.' + node.name
    def __repr__(s): return s.q
CLASSES, IMPORTS = {}, {}
for m, tree in MODS.items():
    imp = {}
    for st in tree.body:
        if isinstance(st, ast.ImportFrom) and st.module and st.module.startswith('discopy'):
            for a in st.names: imp[a.asname or a.name] = st.module + '.' + a.name
        if isinstance(st, ast.ClassDef): CLASSES[m + '.' + st.name] = Cls(m, st)
    IMPORTS[m] = imp
def resolve_name(mod, expr):
    """resolve a dotted expr used in module `mod` to a class qualname or None"""
    parts = expr.split('.')
    if mod + '.' + expr in CLASSES: return mod + '.' + expr
    head = IMPORTS[mod].get(parts[0])
    if head is None: return None
    q = '.'.join([head] + parts[1:])
    if q in CLASSES: return q
    # imported name may itself be re-exported (e.g. discopy.quantum.circuit.Box imported into gates)
    hm, _, hn = head.rpartition('.')
    if hm in IMPORTS and hn in IMPORTS[hm]: 
        q2 = '.'.join([IMPORTS[hm][hn]] + parts[1:])
        if q2 in CLASSES: return q2
    return None
def bases(c): return [CLASSES[b] for b in (resolve_name(c.mod, ast.unparse(x)) for x in c.node.bases) if b]
def mro(c):
    seqs = [mro(b) for b in bases(c)] + [bases(c)]
    res = [c]
    seqs = [list(s) for s in seqs if s]
    while seqs:
        for s in seqs:
            h = s[0]
            if not any(h in t[1:] for t in seqs): break
        else: raise Exception('no mro')
        res.append(h); seqs = [[x for x in t if x is not h] for t in seqs]; seqs = [t for t in seqs if t]
    return res
def method(c, name, after=None):
    chain = mro(c)
    if after is not None: chain = chain[chain.index(after) + 1:]
    for k in chain:
        for st in k.node.body:
            if isinstance(st, ast.FunctionDef) and st.name == name: return k, st
    return None, None

# ---- symbolic values: nested tuples ('param', n) ('attr', obj, n) ('call', f, args, kw) ('const', v) ...
class Sim:
    def __init__(s, cls): s.cls, s.attrs = cls, {}
    def bind(s, fn, args, kw):
        a = fn.args; names = [x.arg for x in a.args][1:]  # drop self
        defaults = dict(zip(reversed(names), reversed([s.ex(d, {}, None) for d in a.defaults])))
        env = {}
        for n, v in zip(names, args): env[n] = v
        extra = {}
        for k, v in kw.items():
            if k in names or k in [x.arg for x in a.kwonlyargs]: env[k] = v
            else: extra[k] = v
        for n in names:
            if n not in env: env[n] = defaults.get(n, ('missing', n))
        for x, d in zip(a.kwonlyargs, a.kw_defaults):
            if x.arg not in env: env[x.arg] = s.ex(d, {}, None) if d else ('missing', x.arg)
        if a.kwarg: env[a.kwarg.arg] = ('dict', dict(extra))
        if a.vararg: env[a.vararg.arg] = ('tuple', tuple(args[len(names):]))
        return env
    def ex(s, n, env, owner):
        if isinstance(n, ast.Constant): return ('const', n.value)
        if isinstance(n, ast.Name): return env.get(n.id, ('global', n.id))
        if isinstance(n, ast.Attribute):
            if isinstance(n.value, ast.Name) and n.value.id == 'self':
                return s.attrs.get(n.attr, ('selfattr', n.attr))
            return ('attr', s.ex(n.value, env, owner), n.attr)
        if isinstance(n, ast.Call):
            f = n.func
            # params.get('k', default)
            if isinstance(f, ast.Attribute) and f.attr == 'get':
                d = s.ex(f.value, env, owner)
                if d[0] == 'dict':
                    k = n.args[0].value
                    return d[1].get(k, s.ex(n.args[1], env, owner) if len(n.args) > 1 else ('const', None))
            return ('call', ast.unparse(f), tuple(s.ex(a, env, owner) for a in n.args if not isinstance(a, ast.Starred)),
                    tuple((k.arg, s.ex(k.value, env, owner)) for k in n.keywords if k.arg))
        if isinstance(n, ast.IfExp): return ('ite', ast.unparse(n.test), s.ex(n.body, env, owner), s.ex(n.orelse, env, owner))
        if isinstance(n, ast.Tuple): return ('tuple', tuple(s.ex(e, env, owner) for e in n.elts))
        return ('expr', ast.unparse(n), tuple(sorted({x.id for x in ast.walk(n) if isinstance(x, ast.Name) and x.id in env})))
    def run_init(s, owner, fn, args, kw):
        env = s.bind(fn, args, kw)
        s.block(fn.body, env, owner)
    def block(s, body, env, owner):
        for st in body:
            if isinstance(st, ast.Assign):
                val = s.ex(st.value, env, owner)
                for t in st.targets: s.assign(t, val, env)
            elif isinstance(st, ast.Expr) and isinstance(st.value, ast.Call): s.call(st.value, env, owner)
            elif isinstance(st, ast.If):
                # merge: run both branches sequentially, tagging (coarse)
                s.block(st.body, env, owner); s.block(st.orelse, env, owner)
            elif isinstance(st, (ast.FunctionDef, ast.Raise, ast.For, ast.Expr, ast.AugAssign)): pass
    def assign(s, t, val, env):
        if isinstance(t, ast.Tuple):
            vals = val[1] if val[0] == 'tuple' else [('item', val, i) for i in range(len(t.elts))]
            for a, v in zip(t.elts, vals): s.assign(a, v, env)
        elif isinstance(t, ast.Name): env[t.id] = val
        elif isinstance(t, ast.Attribute) and isinstance(t.value, ast.Name) and t.value.id == 'self': s.attrs[t.attr] = val
    def call(s, c, env, owner):
        f = c.func
        if not (isinstance(f, ast.Attribute) and f.attr == '__init__'): return
        args = [s.ex(a, env, owner) for a in c.args]
        kw = {}
        for k in c.keywords:
            if k.arg: kw[k.arg] = s.ex(k.value, env, owner)
            else:
                d = s.ex(k.value, env, owner)
                if d[0] == 'dict': kw.update(d[1])
        if isinstance(f.value, ast.Call) and ast.unparse(f.value.func) == 'super':
            k, fn = method(s.cls, '__init__', after=owner)
        else:
            k = CLASSES[resolve_name(owner.mod, ast.unparse(f.value))]; args = args[1:]
            k, fn = method(k, '__init__')
        if fn: s.run_init(k, fn, args, kw)

def init_prov(q, params=None):
    c = CLASSES[q]; k, fn = method(c, '__init__'); sim = Sim(c)
    names = [x.arg for x in fn.args.args][1:]
    sim.run_init(k, fn, [('param', n) for n in names], {x.arg: ('param', x.arg) for x in fn.args.kwonlyargs})
    return sim.attrs
def show(q):
    print('==', q, 'mro:', [k.name + '@' + k.mod.split('.')[-1] for k in mro(CLASSES[q])])
    for a, v in sorted(init_prov(q).items()): print('   ', a, '<-', v)
for q in ['discopy.cat.Box', 'discopy.monoidal.Box', 'discopy.quantum.gates.QuantumGate', 'discopy.quantum.gates.Scalar',
          'discopy.quantum.gates.ClassicalGate', 'discopy.quantum.gates.Rz', 'discopy.cat.Sum', 'discopy.cat.Bubble']:
    show(q)
