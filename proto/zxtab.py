"""Spike: evaluate zx.gate2zx entries as closed terms in a reference ZX algebra; compare to gate arrays (reference)."""
import ast, math, numpy as np, itertools
from scipy.linalg import expm
src = open('/repo/discopy/quantum/zx.py').read(); mod = ast.parse(src)
fn = next(f for f in mod.body if isinstance(f, ast.FunctionDef) and f.name == 'gate2zx')

class T:
    """reference linear map with m inputs, n outputs: matrix 2^n x 2^m"""
    def __init__(s, m, n, M): s.m, s.n, s.M = m, n, np.array(M, dtype=complex).reshape(2**n, 2**m)
    def __matmul__(s, o): return T(s.m + o.m, s.n + o.n, np.kron(s.M, o.M))
    def __rshift__(s, o):
        assert s.n == o.m, 'arity mismatch %d -> %d' % (s.n, o.m); return T(s.m, o.n, o.M @ s.M)
    def tensor(s, *os):
        r = s
        for o in os: r = r @ o
        return r
Hm = np.array([[1, 1], [1, -1]]) / math.sqrt(2)
def Z(m, n, phase=0):
    M = np.zeros((2**n, 2**m), dtype=complex); M[0, 0] += 1; M[-1, -1] += np.exp(2j * np.pi * phase); return T(m, n, M)
def kronpow(A, k):
    R = np.eye(1)
    for _ in range(k): R = np.kron(R, A)
    return R
def X(m, n, phase=0):
    z = Z(m, n, phase); return T(m, n, kronpow(Hm, n) @ z.M @ kronpow(Hm, m))
def Id(n=0): return T(n, n, np.eye(2**n))
def scalar(c): return T(0, 0, [[c]])
H = T(1, 1, Hm); Had = lambda: H

class Fold(ast.NodeVisitor):
    def __init__(self, env): self.env = env
    def visit_Constant(self, n): return n.value
    def visit_Name(self, n): return self.env[n.id]
    def visit_Attribute(self, n):
        d = ast.unparse(n)
        if d in self.env: return self.env[d]
        return getattr(self.visit(n.value), n.attr)
    def visit_UnaryOp(self, n): return -self.visit(n.operand)
    def visit_BinOp(self, n):
        l, r = self.visit(n.left), self.visit(n.right)
        return {ast.Add: lambda: l + r, ast.Sub: lambda: l - r, ast.Mult: lambda: l * r, ast.Div: lambda: l / r,
                ast.MatMult: lambda: l @ r, ast.RShift: lambda: l >> r}[type(n.op)]()
    def visit_Call(self, n):
        f = self.visit(n.func); args = []
        for a in n.args:
            if isinstance(a, ast.Starred): args += list(self.visit(a.value))
            else: args.append(self.visit(a))
        return f(*args, **{k.arg: self.visit(k.value) for k in n.keywords})
    def visit_ListComp(self, n):
        g, = n.generators; out = []
        for v in self.visit(g.iter):
            out.append(Fold(dict(self.env, **{g.target.id: v})).visit(n.elt))
        return out
    def visit_IfExp(self, n): return self.visit(n.body) if self.visit(n.test) else self.visit(n.orelse)
    def visit_Tuple(self, n): return tuple(self.visit(e) for e in n.elts)
    def visit_Dict(self, n): return {ast.unparse(k): (lambda v=v: self.visit(v)) for k, v in zip(n.keys, n.values)}
    def generic_visit(self, n): raise NotImplementedError(ast.dump(n)[:100])

BASE = dict(Z=Z, X=X, Id=Id, scalar=scalar, H=H, Had=Had, pow=pow, len=len, isinstance=lambda *a: None, Bra='Bra', Ket='Ket', Rz='Rz', Rx='Rx')
Xm, Ym, Zm = np.array([[0,1],[1,0]]), np.array([[0,-1j],[1j,0]]), np.diag([1,-1]); P0, P1 = np.diag([1,0]), np.diag([0,1])
ctrl = lambda U: np.kron(P0, np.eye(2)) + np.kron(P1, U)
REF = {  # class tested by the branch -> reference matrix(phase)  [out,in]
 'Rz': lambda p: expm(-1j*np.pi*p*Zm), 'Rx': lambda p: expm(-1j*np.pi*p*Xm),
 'CRz': lambda p: ctrl(expm(-1j*np.pi*p*Zm)), 'CRx': lambda p: ctrl(expm(-1j*np.pi*p*Xm)),
 'quantum.CU1': lambda p: np.diag([1,1,1,np.exp(2j*np.pi*p)]),
 'quantum.H': lambda p: Hm, 'quantum.Z': lambda p: Zm, 'quantum.X': lambda p: Xm, 'quantum.Y': lambda p: Ym,
 'CZ': lambda p: np.diag([1,1,1,-1]), 'CX': lambda p: ctrl(Xm)}
def prop(A, B):
    A, B = A.flatten(), B.flatten(); i = np.argmax(abs(B)); k = A[i] / B[i]
    return abs(k) > 1e-9 and np.allclose(A, k * B)
pts = [k / 7.3 for k in range(-4, 5)]
class BoxStub:
    def __init__(s, **kw): s.__dict__.update(kw)
def classes(test):  # classes named in isinstance(box, X) / (X, Y)
    arg = test.args[1]; return [ast.unparse(e) for e in (arg.elts if isinstance(arg, ast.Tuple) else [arg])]
for st in fn.body:
    if isinstance(st, ast.If) and isinstance(st.test, ast.Call) and ast.unparse(st.test.func) == 'isinstance':
        names = classes(st.test)
        for cname in names:
            if cname in ('Bra', 'Ket'):
                for bits in itertools.product([0, 1], repeat=2):
                    env = dict(BASE, box=BoxStub(bitstring=list(bits)), isinstance=lambda b, c, cname=cname: c == cname)
                    # evaluate the straight-line body
                    e = dict(env)
                    for s2 in st.body:
                        if isinstance(s2, ast.Assign):
                            val = Fold(e).visit(s2.value); t = s2.targets[0]
                            if isinstance(t, ast.Tuple): [e.__setitem__(a.id, v) for a, v in zip(t.elts, val)]
                            else: e[t.id] = val
                        elif isinstance(s2, ast.Return): term = Fold(e).visit(s2.value)
                    vec = np.zeros(4); vec[bits[0]*2+bits[1]] = 1
                    ref = vec.reshape(1, 4) if cname == 'Bra' else vec.reshape(4, 1)
                    print(cname, bits, 'ok' if prop(term.M, ref) else 'MISMATCH')
            elif cname in REF:
                def term(p, cname=cname):
                    env = dict(BASE, box=BoxStub(phase=p), isinstance=lambda b, c: ast_cls == cname)
                    for s2 in st.body:
                        if isinstance(s2, ast.Return):
                            ast_cls = cname
                            return Fold(dict(env, isinstance=lambda b, c: c == cname, Rz='Rz', Rx='Rx')).visit(s2.value)
                ok = all(prop(term(p).M, REF[cname](p)) for p in pts)
                print(cname, 'proportional' if ok else 'NOT proportional to the gate')
            else:
                print(cname, '(not a unitary table entry; handled separately)')
    elif isinstance(st, ast.Assign) and st.targets[0].id == 'standard_gates':
        d = Fold(BASE).visit(st.value)
        for k, thunk in d.items():
            t = thunk(); print(k, 'proportional' if prop(t.M, REF[k](0)) else 'NOT proportional')
