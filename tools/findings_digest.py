"""Print, for every failing obligation of the current tree, its key and the digest of what was found (the `found_digest` of known_findings.json):
findings_digest.py [ids ...].  A development aid: known_findings.json is edited by hand, never by a check."""
import importlib, os, sys
VERIF = os.path.dirname(os.path.dirname(os.path.abspath(__file__)))
sys.path.insert(0, VERIF)
from sa.core import Ctx, digest, AnalysisError
from sa.model import Model
props = [a.upper() for a in sys.argv[1:]] or ["C%02d" % i for i in range(1, 21)]
model = Model("/repo/discopy")
for p in props:
    ctx = Ctx(p, model)
    try:
        importlib.import_module("sa.rules." + p.lower()).check(ctx)
    except AnalysisError as e:
        print(p, "analysis error:", e)
    for o in ctx.obs:
        if not o.ok:
            print("%s\n   found_digest: %s\n   found: %s" % (o.key(), digest(str(o.found)), str(o.found)[:300]))
