"""Prototype R09.1: axis-layout loop invariant of tensor.Functor.__call__ (box step and swap step)."""
import ast, sys
from .lin import Lin, Facts
from .words import Seq, Seg, Atom, Unlocatable
from .beval import Evaluator, Obj, Box, Closure, Unsupported, Undecided
from .c04 import Hom, W
from .c08 import block_map
from .c10 import find_method


class Arr:
    """abstract ndarray: `axes` is a Seq whose atoms are wire-blocks of the image types."""
    def __init__(self, axes):
        self.axes = axes

    def __repr__(self):
        return "Arr[%r]" % (self.axes,)


class Ev09(Evaluator):
    def __init__(self, facts, where, F):
        super().__init__(facts, where)
        self.F = F
        self.builtins["list"] = lambda x: x
        self.classes["Tensor.np.moveaxis"] = Closure(self.moveaxis)
        self.classes["Tensor.np.tensordot"] = Closure(self.tensordot)
        self.classes["Tensor.id"] = Closure(lambda t: Obj("Tensor", dom=t, cod=t, array=Arr(t + self.prime(t))))
        self.classes["Tensor"] = Closure(lambda dom, cod, array: Obj("Tensor", dom=dom, cod=cod, array=array))
        self.primes = {}

    def prime(self, w):
        out = []
        for p in w.parts:
            a = self.primes.setdefault(id(p.atom), Atom(p.atom.name + "′", p.atom.length))
            out.append(Seg(a, p.lo, p.hi))
        return Seq(out)

    def _len(self, v):
        if isinstance(v, Arr):
            return v.axes.length
        return super()._len(v)

    def getattr(self, v, attr, n=None):
        if isinstance(v, Arr) and attr == "shape":
            return v
        return super().getattr(v, attr, n)

    def e_Call(self, n, env):
        f = self.ev(n.func, env)
        if isinstance(f, Obj) and f.kind == "Functor":
            (a,) = [self.ev(x, env) for x in n.args]
            if isinstance(a, Obj) and a.kind == "Box":
                d, c = self.F(a.f["dom"]), self.F(a.f["cod"])
                bd, bc = Seq([Seg(Atom("box." + p.atom.name, p.atom.length)) for p in d.parts]), Seq([Seg(Atom("box." + p.atom.name, p.atom.length)) for p in c.parts])
                self.box_axes = (bd, bc, d, c)
                return Obj("Tensor", dom=d, cod=c, array=Arr(bd + bc))
            return self.F(a)
        return super().e_Call(n, env)

    def as_range(self, s):
        if isinstance(s, Seq) and len(s.parts) == 1 and isinstance(s.parts[0], Seg) and s.parts[0].atom.name.startswith("range("):
            seg = s.parts[0]
            lo = seg.atom.elem(seg.lo)
            return lo, lo + seg.length
        if isinstance(s, Seq) and not s.parts:
            return Lin.of(0), Lin.of(0)
        raise Unsupported("axis list %r is not a range" % (s,))

    def tensordot(self, a, b, axes):
        (src, tgt) = axes
        s0, s1 = self.as_range(src)
        t0, t1 = self.as_range(tgt)
        if not self.facts.eq(s1 - s0, t1 - t0):
            raise Unlocatable("tensordot contracts %r axes with %r axes" % (s1 - s0, t1 - t0))
        ca, cb = a.axes.slice(s0, s1, self.facts), b.axes.slice(t0, t1, self.facts)
        # the contracted axes of the box array are its dom axes `bd`, which must carry the same wires as the row block
        bd, bc, d, c = self.box_axes
        if not (cb.same(bd, self.facts) and t0 == 0):
            raise Unlocatable("tensordot target %r is not the box's domain axes %r" % (cb, bd))
        if not ca.same(d, self.facts):
            raise Unlocatable("tensordot contracts row axes %r with a box whose domain is %r" % (ca, d))
        rest_b = b.axes.slice(t1, None, self.facts)
        cod_axes = Seq([Seg(self.unbox(p.atom), p.lo, p.hi) for p in rest_b.parts])
        return Arr(a.axes.slice(None, s0, self.facts) + a.axes.slice(s1, None, self.facts) + cod_axes)

    def unbox(self, atom):
        bd, bc, d, c = self.box_axes
        for p, q in zip(bc.parts, c.parts):
            if p.atom is atom:
                return q.atom
        raise Unsupported("unknown box axis %r" % atom)

    def moveaxis(self, a, src, tgt):
        if isinstance(tgt, tuple) and tgt and tgt[0] == "blockmap":
            _, s0, blocks = tgt
            # blocks: [(label, new_start, width)] ; all inside the source range -> permute those blocks in place
            total = sum((w for _, _, w in blocks), Lin.of(0))
            pieces, pos = [], s0
            order = []
            remaining = list(blocks)
            while remaining:
                nxt = [b for b in remaining if self.facts.eq(b[1], pos)] or [b for b in remaining if self.facts.zero(b[2])]
                if not nxt:
                    raise Unlocatable("swap step: moved axes do not tile the source range: %r" % [(l, s) for l, s, _ in remaining])
                b = nxt[0]; remaining.remove(b); order.append(b); pos = pos + b[2]
            out = a.axes.slice(None, s0, self.facts)
            for label, _, width in order:
                st = self.block_src[label]
                out = out + a.axes.slice(st, st + width, self.facts)
            return Arr(out + a.axes.slice(s0 + total, None, self.facts))
        s0, s1 = self.as_range(src)
        t0, t1 = self.as_range(tgt)
        if not self.facts.eq(s1 - s0, t1 - t0):
            raise Unlocatable("moveaxis moves %r axes onto %r positions" % (s1 - s0, t1 - t0))
        moved = a.axes.slice(s0, s1, self.facts)
        rest = a.axes.slice(None, s0, self.facts) + a.axes.slice(s1, None, self.facts)
        return Arr(rest.slice(None, t0, self.facts) + moved + rest.slice(t0, None, self.facts))


def check(path="/repo/discopy/tensor.py", out=print):
    fn = find_method(path, "Functor", "__call__")
    loop = next(s for s in fn.body if isinstance(s, ast.For))
    k = fn.body.index(loop)
    helper = [s for s in fn.body[:k] if isinstance(s, ast.FunctionDef)]
    pre = [s for s in fn.body[:k] if isinstance(s, ast.Assign)]
    post = fn.body[k + 1:]
    fails = []
    DOM, COD, L, R, d, c, a, b = (Atom(x) for x in "DOM COD L R d c a b".split())

    def setup():
        F = Hom()
        ev = Ev09(Facts(), "tensor.Functor.__call__", F)
        functor = Obj("Functor")
        diagram = Obj("Diagram", dom=W(DOM), cod=W(COD), boxes=Seq.atom(Atom("boxes")), offsets=Seq.atom(Atom("offsets")))
        env = {"self": functor, "diagram": diagram, "monoidal.Swap": Obj("cls", name="Swap")}
        for h in helper:     # def dim(scan): return len(self(scan))
            def mk(h):
                def call(*args):
                    e2 = dict(env); e2.update(zip([x.arg for x in h.args.args], args))
                    r = ev.run(h.body, e2)
                    return r[1]
                return Closure(call)
            env[h.name] = mk(h)
        ev.classes["monoidal.Swap"] = Obj("cls", name="Swap")
        ev.builtins["isinstance"] = lambda v, cl: cl.f["name"] in v.f.get("isa", ())
        return F, ev, env
    # initial state
    F, ev, env = setup()
    try:
        ev.run(pre, env)
        scan_v = [v for v, x in env.items() if isinstance(x, Seq) and x == W(DOM)]
        arr_v = [v for v, x in env.items() if isinstance(x, Arr)]
        assert len(scan_v) == 1 and len(arr_v) == 1, (scan_v, arr_v)
        scan, arr = scan_v[0], arr_v[0]
        if not env[arr].axes.same(F(W(DOM)) + ev.prime(F(W(DOM))), ev.facts):
            fails.append("R09.1 initial array layout %r, spec [F(dom) | F(dom)′]" % env[arr])
    except (Unlocatable, Unsupported, Undecided, AssertionError) as e:
        fails.append("R09.1 prologue: %s: %s" % (type(e).__name__, e))
        scan = arr = None
    body_swap = body_box = None
    for st in loop.body:
        if isinstance(st, ast.If) and "Swap" in ast.unparse(st.test):
            body_swap = [s for s in st.body if not isinstance(s, ast.Continue)]
    body_box = [s for s in loop.body if not (isinstance(s, ast.If) and "Swap" in ast.unparse(s.test))]
    # ---- generic box step:  row = L d R, box : d -> c
    if scan:
        F, ev, env = setup(); ev.run(pre, env)
        IN = F(W(DOM))
        env[scan], env[arr] = W(L, d, R), Arr(IN + F(W(L, d, R)))
        ev.bind(loop.target, (Box("box_k", W(d), W(c), isa=("Box",)), W(L).length), env)
        try:
            ev.run(body_box, env)
            if env[scan] != W(L, c, R):
                fails.append("R09.1 box step: scan becomes %r, spec %r" % (env[scan], W(L, c, R)))
            want = IN + F(W(L, c, R))
            if not env[arr].axes.same(want, ev.facts):
                fails.append("R09.1 box step: array layout becomes %r, spec %r" % (env[arr].axes, want))
        except (Unlocatable, Unsupported, Undecided) as e:
            fails.append("R09.1 box step: %s: %s" % (type(e).__name__, e))
        # ---- generic swap step: row = L a b R, swap : a b -> b a
        F, ev, env = setup(); ev.run(pre, env)
        IN = F(W(DOM))
        env[scan], env[arr] = W(L, a, b, R), Arr(IN + F(W(L, a, b, R)))
        sw = Obj("Box", dom=W(a, b), cod=W(b, a), left=W(a), right=W(b), isa=("Box", "Swap"))
        ev.bind(loop.target, (sw, W(L).length), env)
        try:
            # evaluate `source`, then the `target` comprehension block-wise, then the rest
            for st in body_swap:
                if isinstance(st, ast.Assign) and isinstance(st.value, ast.ListComp):
                    s0, s1 = ev.as_range(env["source"])
                    wa, wb = F(W(a)).length, F(W(b)).length
                    ev.block_src = {"A": s0, "B": s0 + wa}
                    moved = block_map(ev, st.value, env, [("A", s0, wa), ("B", s0 + wa, wb)])
                    if not ev.facts.eq(s1 - s0, wa + wb):
                        raise Unlocatable("swap step moves %r axes, spec |F a| + |F b|" % (s1 - s0))
                    ev.bind(st.targets[0], ("blockmap", s0, moved), env)
                else:
                    ev.run([st], env)
            if env[scan] != W(L, b, a, R):
                fails.append("R09.1 swap step: scan becomes %r, spec %r" % (env[scan], W(L, b, a, R)))
            want = IN + F(W(L, b, a, R))
            if not env[arr].axes.same(want, ev.facts):
                fails.append("R09.1 swap step: array layout becomes %r, spec %r" % (env[arr].axes, want))
        except (Unlocatable, Unsupported, Undecided) as e:
            fails.append("R09.1 swap step: %s: %s" % (type(e).__name__, e))
        # ---- exit
        F, ev, env = setup(); ev.run(pre, env)
        env[scan], env[arr] = W(COD), Arr(F(W(DOM)) + F(W(COD)))
        try:
            r = ev.run(post, env)
            t = r[1]
            if not (t.f["dom"] == F(W(DOM)) and t.f["cod"] == F(W(COD)) and t.f["array"].axes.same(F(W(DOM)) + F(W(COD)), ev.facts)):
                fails.append("R09.1 exit: returns Tensor(%r, %r, %r)" % (t.f["dom"], t.f["cod"], t.f["array"]))
        except (Unlocatable, Unsupported, Undecided) as e:
            fails.append("R09.1 exit: %s: %s" % (type(e).__name__, e))
    for x in fails:
        out("VIOLATION-CANDIDATE " + x)
    if not fails:
        out("  R09.1 ok: layout invariant [F(dom) | F(scan)] holds initially, is preserved by the box step and the swap step, and gives Tensor(F dom, F cod)")
    return 1 if fails else 0


if __name__ == "__main__":
    sys.exit(check())
