"""C03 — equality is structural, hash-consistent and printable (R03.1–R03.4; engines A, C)."""
import ast
from ..core import AnalysisError
from ..prov import init_prov, BindError, show
from ..eqrepr import fn_of, canon_attr, eq_branches, format_branches, balanced, shown_attrs
from .. import shape

EXPLANATION = (
    "For every class of cat, monoidal and rigid the methods __eq__, __hash__ and __repr__ are resolved along the MRO and read from "
    "source. Decided: (R03.1) __eq__ compares exactly the structural fields of the property (dom, cod, boxes, offsets / name, dom, "
    "cod, data, dagger flag / objects / (name, z) / (dom, cod, terms)), a box equals a one-box arrow/diagram through the dedicated "
    "branch; (R03.2) every class that defines __eq__ defines __hash__, and whatever reaches the hash (through repr) is a function of "
    "constructor-parameter access paths that __eq__ also compares — otherwise two equal values can hash differently; (R03.3) the "
    "general branch of __repr__ is constructor syntax of the same class (head resolves to the class, parentheses balanced on every "
    "branch of the format expression, keyword names are parameters of __init__) and shows every access path __eq__ compares — "
    "necessary for eval(repr(x)) == x; (R03.4) one-box and empty arrows print as the box / the identity so that repr-based hashes of "
    "equal values agree. Not decided: that eval runs in a namespace holding the right names; relations across different classes.")

SCOPE = ("discopy.cat", "discopy.monoidal", "discopy.rigid")
CAT, MON, RIG = SCOPE

# the structural fields of the property statement, per defining class of __eq__
EQ_SPEC = {
    CAT + ".Ob": [{"_name"}],
    CAT + ".Arrow": [{"_dom", "_cod", "_boxes"}],
    CAT + ".Box": [{"_name", "_dom", "_cod", "_data", "_dagger"}],
    CAT + ".Sum": [{"_dom", "_cod", "terms"}],
    CAT + ".Bubble": [{"_inside", "_dom", "_cod"}],
    MON + ".Ty": [{"_objects"}],
    MON + ".Layer": [{"_left", "_box", "_right"}],
    MON + ".Diagram": [{"_dom", "_cod", "_boxes", "_offsets"}],
    MON + ".Box": [{"_name", "_dom", "_cod", "_data", "_dagger"}],
    RIG + ".Ob": [{"_name", "_z"}],
}
EXPR_SPEC = {
    CAT + ".Box": ["len(other) == 1 and other[0] == self", "len(other) == 1 and other.boxes[0] == self"],
    MON + ".Box": ["len(other) == 1 and other.boxes[0] == self and ((other.dom, other.cod) == (self.dom, self.cod))",
                   "len(other) == 1 and other.boxes[0] == self and ((self.dom, self.cod) == (other.dom, other.cod))"],
    RIG + ".Ob": ["self.z == 0 and self.name == other.name", "not self.z and self.name == other.name"],
    CAT + ".Bubble": ["super().__eq__(other)"],
    MON + ".Layer": ["super().__eq__(other)"],
}


def paths_in(e, acc=None, prefix=None):
    """access paths rooted at constructor parameters occurring in a provenance expression: {'inside', 'inside.dom', 'dom', ...}"""
    acc = set() if acc is None else acc
    if not isinstance(e, tuple) or not e:
        return acc
    if not isinstance(e[0], str):
        for x in e:
            paths_in(x, acc)
        return acc
    k = e[0]
    if k == "param":
        acc.add(e[1])
    elif k == "attr":
        base = e[1]
        chain = [e[2]]
        while isinstance(base, tuple) and base and base[0] == "attr":
            chain.append(base[2])
            base = base[1]
        if isinstance(base, tuple) and base and base[0] == "param":
            acc.add(".".join([base[1]] + chain[::-1]))
        else:
            paths_in(base, acc)
    elif k == "dict":
        for v in e[1].values():
            paths_in(v, acc)
    elif k == "raw":
        if len(e) > 2 and e[2]:
            for name, _ in e[2]:
                acc.add(name)
    elif k == "ite":
        # the condition is text: pick parameter names out of "[x=...]" annotations conservatively
        for x in e[2:]:
            paths_in(x, acc)
        cond = e[1]
        if isinstance(cond, str):
            import re
            for mm in re.finditer(r"\[(\w+)=", cond):
                pass
    else:
        for x in e[1:]:
            paths_in(x, acc)
    return acc


def covered(p, by):
    """path p is determined by the set `by` if some q in `by` equals p or is a prefix of p"""
    return any(p == q or p.startswith(q + ".") for q in by)


def field_paths(prov, fields):
    out = set()
    for f in fields:
        if f in prov:
            out |= paths_in(prov[f])
        else:
            out.add("self." + f)
    return out


def classes_in_scope(m):
    return sorted((c for c in m.classes.values() if c.mod in SCOPE), key=lambda c: c.q)


def check(ctx):
    m = ctx.model
    ctx.rule("R03.1", "__eq__ compares exactly the structural fields (and a box equals the one-box arrow/diagram that wraps it)")
    ctx.rule("R03.2", "a class defining __eq__ defines __hash__; everything reaching the hash is determined by what __eq__ compares")
    ctx.rule("R03.3", "__repr__ is constructor syntax of the class (head, balanced parentheses, keyword names) and shows what __eq__ compares")
    ctx.rule("R03.4", "empty and one-box arrows/diagrams print as the identity / the box, so repr-based hashes of equal values agree")
    arrow, ob = m.cls(CAT + ".Arrow"), m.cls(CAT + ".Ob")
    exc = m.cls(CAT + ".AxiomError")
    n_order = n_guard = 0
    for c in classes_in_scope(m):
        if not (arrow in m.mro(c) or ob in m.mro(c)):
            continue
        eo, efn = fn_of(m, c, "__eq__")
        ho, hfn = fn_of(m, c, "__hash__")
        ro, rfn = fn_of(m, c, "__repr__")
        if efn is None:
            continue
        ctx.analysed(c.q + ".__eq__", c.q + ".__hash__", c.q + ".__repr__")
        # ---- R03.2a: __eq__ defined => __hash__ defined in the same class (else Python sets __hash__ = None)
        if "__eq__" in c.methods:
            ctx.ob("R03.2", c.q + ":hash-defined", "__hash__" in c.methods, found=sorted(k for k in c.methods if k.startswith("__") and k in ("__eq__", "__hash__")),
                   required="a class overriding __eq__ must define __hash__ (Python otherwise makes it unhashable)", mod=c.mod, node=c.node, sig="hash-defined")
            # ---- R03.1 on the defining class
            spec_fields = EQ_SPEC.get(c.q)
            if spec_fields is None:
                raise AnalysisError("%s defines __eq__ but the property gives no structural fields for it; cannot decide" % c.q)
            br = eq_branches(m, c, efn, c)
            fb = [b for b in br if b[1] == "fields"]
            ok = [set(b[2]) for b in fb] == spec_fields
            ctx.ob("R03.1", c.q + ".__eq__:fields", ok, found=[sorted(b[2]) for b in fb], required=[sorted(s) for s in spec_fields], mod=c.mod, node=efn, sig="eq-fields")
            exprs = [b for b in br if b[1] == "expr"]
            want = EXPR_SPEC.get(c.q, [])
            self_, other = efn.args.args[0].arg, efn.args.args[1].arg
            for g, _, e in exprs:
                shape.match(ctx, "R03.1", c.q + ".__eq__:" + g[:50], e, want, {self_: "self", other: "other"}, mod=c.mod, node=efn, sig="eq-branch",
                            required="the cross-class branch compares the single box (and its type)" if want else "no other comparison")
            if want and not exprs:
                ctx.ob("R03.1", c.q + ".__eq__:wrapping-branch", False, found="no branch for arrows/diagrams wrapping the box", required=want[0], mod=c.mod, node=efn,
                       sig="eq-branch-missing")
            n_guard += check_eq_guards(ctx, m, c, efn)
            consts = [b for b in br if b[1] == "const"]
            ctx.ob("R03.1", c.q + ".__eq__:otherwise", all(b[2] is False for b in consts), found=[(b[0], b[2]) for b in consts],
                   required="unrelated values compare unequal (False)", mod=c.mod, node=efn, sig="eq-otherwise", trivial=True)
        # ---- provenance of this class's attributes
        try:
            prov = init_prov(m, c)
        except (BindError, RecursionError, Exception) as e:      # classes whose constructor chain cannot be simulated are reported, not guessed
            prov = None
        br = eq_branches(m, c, efn, eo)
        eq_fields = set().union(*[set(b[2]) for b in br if b[1] == "fields"]) if br else set()
        if prov is None or hfn is None or rfn is None:
            continue
        eq_paths = field_paths(prov, eq_fields)
        # ---- R03.2b: hash ⊆ eq
        hsrc = ast.unparse(hfn.body[-1].value) if isinstance(hfn.body[-1], ast.Return) else None
        self_h = hfn.args.args[0].arg
        if hsrc in ("hash(repr(%s))" % self_h, "hash(super().__repr__())"):
            hf = shown_attrs(m, c, rfn)
            # __repr__ may delegate to the dagger partner (repr(self.dagger()) + '.dagger()'): same fields
            hf = {f for f in hf if not (m.lookup(c, f) and m.lookup(c, f)[2] == "method")}
        else:
            hf = {canon_attr(m, c, n.attr) for n in ast.walk(hfn) if isinstance(n, ast.Attribute) and isinstance(n.value, ast.Name) and n.value.id == self_h}
        h_paths = field_paths(prov, hf)
        ident = [ast.unparse(n) for n in ast.walk(hfn) if isinstance(n, ast.Call) and ast.unparse(n.func) in ("id", "object.__hash__", "super().__hash__")]
        if hsrc in ("hash(repr(%s))" % self_h, "hash(super().__repr__())"):
            # the hash is the hash of the repr: the repr must not depend on WHICH object it is either (`self is gate`)
            self_r = rfn.args.args[0].arg
            ident += [ast.unparse(n) for n in ast.walk(rfn) if isinstance(n, ast.Compare) and any(isinstance(o, (ast.Is, ast.IsNot)) for o in n.ops)
                      and any(isinstance(x, ast.Name) and x.id == self_r for x in ast.walk(n))
                      and not all(isinstance(c_, ast.Constant) for c_ in n.comparators)]
        ctx.ob("R03.2", c.q + ":hash-not-identity", not ident, found=ident or "no use of object identity", required="the hash must not depend on object identity (equal values are distinct objects)",
               mod=ho.mod, node=hfn, sig="hash-identity", trivial=True)
        extra = sorted(p for p in h_paths if not covered(p, eq_paths) and not p.startswith("self."))
        extra += sorted(p for p in h_paths if p.startswith("self.") and p[5:] not in eq_fields and canon_attr(m, c, p[5:]) not in eq_fields)
        # attribute level: a field the hash reads but __eq__ does not compare is acceptable only if it is a parameter stored as given (then the
        # path comparison above is exact); a field COMPUTED from parameters (e.g. "was dom passed explicitly") can differ between equal values
        eq_canon = {canon_attr(m, c, f) for f in eq_fields}
        for f in sorted(hf):
            cf = canon_attr(m, c, f)
            pv = prov.get(cf) if cf in prov else prov.get("_" + cf.lstrip("_"))
            if cf in eq_canon or pv is None:
                continue
            if isinstance(pv, tuple) and pv and pv[0] == "raw" and isinstance(pv[1], str) and (" is None" in pv[1] or " is not None" in pv[1]):
                extra.append("self.%s (computed as `%s`: it records whether an optional argument was given, which the compared fields do not)" % (cf, pv[1][:60]))
        ctx.ob("R03.2", c.q + ":hash-determined-by-eq", not extra, found="hash reads %s -> parameter paths %s; not compared by __eq__: %s" % (sorted(hf), sorted(h_paths), extra),
               required="paths compared by __eq__ (%s): %s" % (eo.q, sorted(eq_paths)), mod=ho.mod, node=hfn, sig="hash-subset-eq:" + ",".join(extra))
        # ---- R03.3: eq ⊆ repr (general branch) ; constructor syntax
        rf = shown_attrs(m, c, rfn)
        r_paths = field_paths(prov, rf)
        missing = sorted(p for p in eq_paths if not covered(p, r_paths) and not p.startswith("self."))
        ctx.ob("R03.3", c.q + ":repr-shows-eq", not missing, found="repr shows %s -> %s; compared but not printed: %s" % (sorted(rf), sorted(r_paths), missing),
               required="every parameter path __eq__ depends on is printed", mod=ro.mod, node=rfn, sig="eq-subset-repr:" + ",".join(missing))
        if "__repr__" in c.methods:
            check_repr_syntax(ctx, m, c, rfn)
            n_order += check_repr_order(ctx, m, c, rfn)
            check_repr_omissions(ctx, m, c, rfn)
        check_normalised_access(ctx, m, c)
    ctx.need(n_guard >= 10, "fewer than 10 comparisons of __eq__ read fields of the other value (%d)" % n_guard)
    ctx.need(n_order >= 8, "fewer than 8 printed constructor arguments could be traced to their parameter (%d)" % n_order)
    ctx.attempt(check_one_box, ctx, m)
    ctx.attempt(check_total_order, ctx, m)
    ns = check_returns_str(ctx, m)
    ctx.need(ns >= 25, "fewer than 25 __repr__ / __str__ methods scanned (%d)" % ns)
    ctx.rule("R03.6", "no method other than the constructor changes a field in place (directly or through an alias)")
    n6 = check_immutability(ctx, m)
    ctx.need(n6 >= 100, "fewer than 100 methods scanned for in-place changes (%d)" % n6)
    ctx.rule("R03.5", "types normalise their objects into the class whose attributes their repr / hash / adjoints read")
    n5 = check_type_normalisation(ctx, m)
    ctx.need(n5 >= 2, "fewer than 2 type constructors normalise their objects (%d)" % n5)
    ctx.floor("R03.1", 14)
    ctx.floor("R03.2", 20)
    ctx.floor("R03.3", 20)
    ctx.floor("R03.4", 6)
    ctx.not_decided += ["that eval(repr(x)) is run in a namespace binding the class names", "relations between values of different classes beyond the box/one-box-diagram case"]


def check_repr_syntax(ctx, m, c, rfn):
    """every string __repr__ can return on its general branches is `Head(...)` with balanced brackets; keyword names are __init__ parameters"""
    rets = [s for s in ast.walk(rfn) if isinstance(s, ast.Return)]
    init = m.lookup(c, "__init__")
    params = set()
    if init and isinstance(init[1], ast.FunctionDef):
        a = init[1].args
        params = {x.arg for x in a.args[1:]} | {x.arg for x in a.kwonlyargs}
        if a.kwarg:
            params |= {"data", "_dagger"}
    import re
    n = 0
    for r in rets:
        alts = format_branches(r.value)
        if alts is None:
            continue            # delegation (repr of another object / of the name): checked through that object
        for s in alts:
            if s == "X" or s.startswith("X"):
                continue
            n += 1
            head = re.match(r"^([A-Za-z_][A-Za-z_0-9.]*)\(", s)
            k = m.resolve_class(c.mod, head.group(1)) if head else None
            ok_head = k is not None and (k is c or c in m.mro(k) or k in m.mro(c))
            ctx.ob("R03.3", "%s.__repr__:syntax" % c.q, bool(head) and ok_head and balanced(s), found=s, required="`%s(...)` with balanced brackets" % c.name,
                   mod=c.mod, node=r, sig="repr-syntax:" + re.sub(r"X", "_", s)[:40])
            kws = set(re.findall(r"[(, ]([a-z_]+)=", s))
            bad = sorted(kws - params)
            ctx.ob("R03.3", "%s.__repr__:keywords" % c.q, not bad, found="keywords %s in %r" % (sorted(kws), s), required="parameters of %s.__init__: %s" % (c.name, sorted(params)),
                   mod=c.mod, node=r, sig="repr-kw:" + ",".join(bad), trivial=not kws)
    return n


def check_eq_guards(ctx, m, c, efn):
    """R03.1: __eq__ reads a field of `other` only where `other` is known to be of (a class related to) the class: a comparison reached by values of another class
    either fails (AttributeError) or ignores the fields the class adds (a Bubble compared as a plain box: two bubbles with different insides equal)"""
    self_, other = efn.args.args[0].arg, efn.args.args[1].arg

    def facts(test, pol, acc):
        if isinstance(test, ast.UnaryOp) and isinstance(test.op, ast.Not):
            return facts(test.operand, not pol, acc)
        if isinstance(test, ast.BoolOp) and ((isinstance(test.op, ast.And) and pol) or (isinstance(test.op, ast.Or) and not pol)):
            for v in test.values:
                facts(v, pol, acc)
            return acc
        if isinstance(test, ast.Call) and ast.unparse(test.func) == "isinstance" and len(test.args) == 2 and ast.unparse(test.args[0]) == other:
            ks = test.args[1].elts if isinstance(test.args[1], ast.Tuple) else [test.args[1]]
            acc.append((pol, [ast.unparse(k) for k in ks]))
        return acc

    def reads_other(e):
        return any((isinstance(n, (ast.Attribute, ast.Subscript)) and isinstance(n.value, ast.Name) and n.value.id == other) or
                   (isinstance(n, ast.Call) and ast.unparse(n.func) in ("len", "getattr") and n.args and ast.unparse(n.args[0]) == other) for n in ast.walk(e))

    out = []

    def walk(body, known):
        known = list(known)
        for st in body:
            if isinstance(st, ast.If):
                walk(st.body, known + facts(st.test, True, []))
                if st.orelse:
                    walk(st.orelse, known + facts(st.test, False, []))
                ends = lambda b: bool(b) and isinstance(b[-1], (ast.Return, ast.Raise))
                if ends(st.body) and not st.orelse:
                    known += facts(st.test, False, [])           # fall-through: the test was false
                elif st.orelse and ends(st.orelse) and not ends(st.body):
                    known += facts(st.test, True, [])
            elif isinstance(st, ast.Return) and st.value is not None:
                e = st.value
                local = list(known)
                if isinstance(e, ast.BoolOp) and isinstance(e.op, ast.And):      # isinstance(other, K) and <fields>: the conjuncts to the right are guarded
                    facts(e, True, local)
                out.append((st, local, reads_other(e)))
    walk(efn.body, [])
    n = 0
    for st, known, reads in out:
        if not reads:
            continue
        pos = [k for pol, ks in known if pol for k in ks]
        rel = []
        for k in pos:
            K = m.resolve_class(c.mod, k)
            if K is not None and (K is c or K in m.mro(c) or c in m.mro(K)):
                rel.append(k)
        n += 1
        ctx.ob("R03.1", "%s.__eq__:guard[%s]" % (c.q, ast.unparse(st.value)[:40]), bool(rel), found="reached when `%s` is %s" % (other, " and ".join(
            ("an instance of %s" % "/".join(ks)) if pol else ("not an instance of %s" % "/".join(ks)) for pol, ks in known) or "anything"),
            required="fields of `%s` are compared only after isinstance(%s, <the class or a class it is compared with>) holds" % (other, other), mod=c.mod, node=st, sig="eq-guard")
    return n


def check_repr_order(ctx, m, c, rfn):
    """the constructor expression printed by __repr__ passes each stored parameter back in ITS OWN place: a field that is a plain copy of the parameter p of __init__
    is printed in the positional slot of p (or as `p=`).  Decided for the slots filled by repr(self.x) / self.x of the top-level format string; other slots are not judged."""
    import re
    from ..prov import init_prov
    init = m.lookup(c, "__init__")
    if not (init and isinstance(init[1], ast.FunctionDef)):
        return 0
    params = [x.arg for x in init[1].args.args[1:]]
    try:
        attrs = init_prov(m, c)
    except Exception:
        return 0
    self_ = rfn.args.args[0].arg
    n = 0
    sites = [(s, s.value, False) for s in ast.walk(rfn) if isinstance(s, ast.Return)]
    if any(isinstance(s.value, ast.Attribute) and s.value.attr in ("name", "_name") for s, _, _ in sites) and "__init__" in c.methods:
        # the repr is the name computed by the constructor: the format calls of __init__ are read with the parameters themselves as arguments
        sites += [(x, x, True) for x in ast.walk(init[1]) if isinstance(x, ast.Call) and isinstance(x.func, ast.Attribute) and x.func.attr == "format"]
    for r, e, in_init in sites:
        if not (isinstance(e, ast.Call) and isinstance(e.func, ast.Attribute) and e.func.attr == "format" and isinstance(e.func.value, ast.Constant) and isinstance(e.func.value.value, str)):
            continue
        tmpl = e.func.value.value
        head = re.match(r"^([A-Za-z_][A-Za-z_0-9.]*)\(", tmpl)
        k = m.resolve_class(c.mod, head.group(1)) if head else None
        if k is not c or any(isinstance(a, ast.Starred) for a in e.args) or e.keywords:
            continue
        # walk the template: which constructor argument each `{}` at bracket depth 1 stands for
        depth, pos, slot, since = 0, 0, 0, ""
        slots = {}
        i = len(head.group(0)) - 1
        while i < len(tmpl):
            ch = tmpl[i]
            if tmpl.startswith("{}", i):
                if depth == 1:
                    kw = re.match(r"^\s*([A-Za-z_][A-Za-z_0-9]*)=$", since)
                    slots[slot] = kw.group(1) if kw else (pos if since.strip() == "" else None)
                slot += 1
                since += "{}"
                i += 2
                continue
            if ch in "([":
                depth += 1
                if depth == 1:
                    since = ""
                    i += 1
                    continue
            elif ch in ")]":
                depth -= 1
            elif ch == "," and depth == 1:
                pos += 1
                since = ""
                i += 1
                continue
            since += ch
            i += 1
        # optional tails such as `', dom={}, cod={}'.format(repr(self.dom), repr(self.cod))` (possibly under a conditional): keyword slots only
        for sub in [x for a_ in e.args for x in ast.walk(a_) if isinstance(x, ast.Call) and isinstance(x.func, ast.Attribute) and x.func.attr == "format"
                    and isinstance(x.func.value, ast.Constant) and isinstance(x.func.value.value, str)]:
            parts = sub.func.value.value.split("{}")
            for j, a in enumerate(sub.args[:len(parts) - 1]):
                kwm = re.search(r"([A-Za-z_][A-Za-z_0-9]*)=$", parts[j])
                x = a.args[0] if isinstance(a, ast.Call) and ast.unparse(a.func) in ("repr", "str") and len(a.args) == 1 else a
                if not kwm or not (isinstance(x, ast.Attribute) and isinstance(x.value, ast.Name) and x.value.id == self_) or in_init:
                    continue
                src = attrs.get(canon_attr(m, c, x.attr))
                if not (isinstance(src, tuple) and src and src[0] in ("param", "ite")):
                    continue
                names_ = {src[1]} if src[0] == "param" else {t[1] for t in (src[2], src[3]) if isinstance(t, tuple) and t and t[0] == "param"}
                if not names_:
                    continue
                n += 1
                ctx.ob("R03.3", "%s.__repr__:argument[%s]" % (c.q, kwm.group(1)), kwm.group(1) in names_, found="self.%s (the parameter `%s` of __init__) is printed as `%s=`" % (x.attr, "/".join(sorted(names_)), kwm.group(1)),
                       required="every stored parameter is printed in its own place, so that evaluating the repr rebuilds the value", mod=c.mod, node=r, sig="repr-order:self.%s" % x.attr)
        for j, a in enumerate(e.args):
            want = slots.get(j)
            if want is None:
                continue
            x = a.args[0] if isinstance(a, ast.Call) and ast.unparse(a.func) in ("repr", "str") and len(a.args) == 1 else a
            if in_init:
                if not (isinstance(x, ast.Name) and x.id in params):
                    continue
                src, shown = ("param", x.id), x.id
            else:
                if not (isinstance(x, ast.Attribute) and isinstance(x.value, ast.Name) and x.value.id == self_):
                    continue
                src, shown = attrs.get(canon_attr(m, c, x.attr)), "self." + x.attr
            if not (isinstance(src, tuple) and src and src[0] == "param"):
                continue                    # a computed field: which argument rebuilds it is not a matter of position
            expected = want if isinstance(want, str) else (params[want] if want < len(params) else None)
            n += 1
            ctx.ob("R03.3", "%s.__repr__:argument[%s]" % (c.q, want), src[1] == expected, found="%s (the parameter `%s` of __init__) is printed as %s" % (
                shown, src[1], "`%s=`" % want if isinstance(want, str) else "positional argument %d (`%s`)" % (want + 1, expected)), required="every stored parameter is printed in its own place, so that "
                "evaluating the repr rebuilds the value", mod=c.mod, node=r, sig="repr-order:%s" % shown)
    return n


def check_repr_omissions(ctx, m, c, rfn):
    """a constructor argument may be left out of the repr only when it has its default value: the omission test must be
    `x is None` for a None default (truthiness would also drop 0, [], ''), truthiness / == 0 only for a 0 or False default"""
    init = m.lookup(c, "__init__")
    if not (init and isinstance(init[1], ast.FunctionDef)):
        return
    a = init[1].args
    names = [x.arg for x in a.args]
    defaults = dict(zip(names[len(names) - len(a.defaults):], a.defaults))
    if a.kwarg:
        defaults.setdefault("data", ast.Constant(value=None))
    self_ = rfn.args.args[0].arg
    for n in ast.walk(rfn):
        if not isinstance(n, ast.IfExp):
            continue
        empt = [b for b in (n.body, n.orelse) if isinstance(b, ast.Constant) and b.value == ""]
        if len(empt) != 1:
            continue
        other = n.orelse if empt[0] is n.body else n.body
        fields = sorted({x.attr for x in ast.walk(other) if isinstance(x, ast.Attribute) and isinstance(x.value, ast.Name) and x.value.id == self_})
        for f in fields:
            p = f.lstrip("_")
            if p not in defaults:
                continue
            d = defaults[p]
            t = ast.unparse(n.test)
            omitted_when_true = empt[0] is n.body
            # only the truthiness idiom is judged: `'' if not self.x else ...` / `... if self.x else ''`
            if t not in ("not %s.%s" % (self_, f), "%s.%s" % (self_, f), "not %s.%s" % (self_, p), "%s.%s" % (self_, p)):
                continue
            if isinstance(d, ast.Constant) and d.value is None:
                ok = False
                req = "omitted only when %s is None (its default); a truthiness test also drops 0, 0.0, [], {}, ''" % f
            elif isinstance(d, ast.Constant) and d.value in (0, False):
                ok = True
                req = "omitted only when %s is %r (its default)" % (f, d.value)
            else:
                continue
            ctx.ob("R03.3", "%s.__repr__:omits-%s" % (c.q, f), ok, found="`%s` omitted %s `%s`" % (f, "when" if omitted_when_true else "unless", t), required=req, mod=c.mod,
                   node=n, sig="repr-omission-" + f)


def check_normalised_access(ctx, m, c):
    """a field wrapped by a normalising property (list(self._x)) must be read through the property by __eq__/__hash__/__repr__:
    the raw field may be a list or a tuple depending on how the value was built"""
    try:
        prov = init_prov(m, c)
    except Exception:
        return
    for meth in ("__eq__", "__hash__", "__repr__"):
        if meth not in c.methods:
            continue
        fn = c.methods[meth][0]
        for n in ast.walk(fn):
            if isinstance(n, ast.Attribute) and n.attr.startswith("_") and isinstance(n.value, ast.Name) and n.value.id in ("self", "other"):
                prop = m.lookup(c, n.attr[1:])
                stored_as_given = isinstance(prov.get(n.attr), tuple) and prov[n.attr][0] == "param"
                if stored_as_given and prop and prop[2] == "property" and isinstance(prop[1], ast.FunctionDef):
                    body = [s_ for s_ in prop[1].body if not (isinstance(s_, ast.Expr) and isinstance(s_.value, ast.Constant))]
                    if len(body) == 1 and isinstance(body[0], ast.Return) and isinstance(body[0].value, ast.Call) and ast.unparse(body[0].value.func) in ("list", "tuple"):
                        ctx.ob("R03.2", "%s.%s:raw-%s" % (c.q, meth, n.attr), False, found="reads %s.%s" % (n.value.id, n.attr),
                               required="read through the normalising property `%s` (the raw field may be a list or a tuple)" % n.attr[1:], mod=c.mod, node=n,
                               sig="raw-field-" + n.attr)


def check_type_normalisation(ctx, m):
    """R03.5: a type normalises its objects in __init__ (`x if isinstance(x, K1) else ... K2(x)`); repr / hash / adjoints then read attributes of K2 on every
    object: objects kept as they are (K1) must already be K2"""
    n = 0
    for c in sorted(m.classes.values(), key=lambda c: c.q):
        if not any(k.q == "discopy.monoidal.Ty" for k in m.mro(c)) or "__init__" not in c.methods:
            continue
        fn = c.methods["__init__"][0]
        for x in ast.walk(fn):
            if not isinstance(x, (ast.ListComp, ast.GeneratorExp)):
                continue
            e = x.elt
            keeps, makes = [], []
            while isinstance(e, ast.IfExp):
                t = e.test
                neg = isinstance(t, ast.UnaryOp) and isinstance(t.op, ast.Not)
                t = t.operand if neg else t
                if isinstance(t, ast.Call) and ast.unparse(t.func) == "isinstance" and len(t.args) == 2:
                    kept = e.orelse if neg else e.body
                    if isinstance(kept, ast.Name) and ast.unparse(t.args[0]) == kept.id:
                        keeps.append(t.args[1])
                    branch = e.body if neg else None
                    if branch is not None and isinstance(branch, ast.Call):
                        makes.append(branch.func)
                    if not neg and isinstance(e.body, ast.Call):
                        makes.append(e.body.func)
                e = e.body if neg and isinstance(e.body, ast.IfExp) else e.orelse
            if isinstance(e, ast.Call):
                makes.append(e.func)
            if not keeps or not makes:
                continue
            # every test and every conversion is about the element being normalised
            ev_ = x.generators[0].target.id if isinstance(x.generators[0].target, ast.Name) else None
            odd = [ast.unparse(t_) for t_ in ast.walk(x.elt) if isinstance(t_, ast.Call) and ast.unparse(t_.func) == "isinstance" and t_.args and ast.unparse(t_.args[0]) != ev_]
            odd += [ast.unparse(t_) for t_ in ast.walk(x.elt) if isinstance(t_, ast.Call) and ast.unparse(t_.func) != "isinstance" and t_.args and
                    not (ast.unparse(t_.args[0]) == ev_ or (isinstance(t_.args[0], ast.Attribute) and ast.unparse(t_.args[0].value) == ev_))]
            if ev_ is not None:
                ctx.ob("R03.5", "%s.__init__:element" % c.q, not odd, found=odd or "every class test and every conversion reads the element `%s`" % ev_, required="the normalisation of an object looks at that object only", mod=c.mod, node=x,
                       sig="type-element")
            K2 = m.resolve_class(c.mod, ast.unparse(makes[-1]))
            if c.q in HANDS_OVER:
                continue
            for k in keeps:
                K1 = m.resolve_class(c.mod, ast.unparse(k))
                if K1 is None or K2 is None:
                    continue
                n += 1
                ctx.ob("R03.5", "%s.__init__:objects" % c.q, m.is_subclass(K1, K2), found="objects that are %s are kept as they are, the others become %s" % (K1.q, K2.q),
                       required="only objects that already are %s (whose attributes __repr__ / __hash__ / adjoints of this type read) are kept unconverted" % K2.q, mod=c.mod, node=x, sig="type-objects")
    return n


# constructors whose own pre-normalisation is not the one that counts: they pass the objects on to the base constructor, which normalises them (and is checked here)
HANDS_OVER = {"discopy.tensor.Dim": "Dim.__init__ only removes the unit dimension and calls rigid.Ty.__init__(*dims), whose normalisation R03.5 checks"}


MUTATING = ("append", "extend", "insert", "pop", "remove", "clear", "sort", "reverse", "update", "add", "discard", "setdefault", "popitem")


def check_immutability(ctx, m):
    """R03.6: values are compared and hashed by their fields, so no method other than the constructor may change a field in place -- directly or through
    a local alias (`terms = self.terms; terms += ...` extends the operand's own list)"""
    n = 0
    arrow, ob = m.cls(CAT + ".Arrow"), m.cls(CAT + ".Ob")
    for c in classes_in_scope(m):
        if not (arrow in m.mro(c) or ob in m.mro(c)):
            continue
        for name, (fn, kind) in sorted(c.methods.items()):
            if name in ("__init__", "__new__", "__setstate__") or not isinstance(fn, ast.FunctionDef) or not fn.args.args:
                continue
            self_ = fn.args.args[0].arg

            def fresh(attr):
                r = m.lookup(c, attr)
                if r and r[2] == "property" and isinstance(r[1], ast.FunctionDef):
                    body = [x for x in r[1].body if not (isinstance(x, ast.Expr) and isinstance(x.value, ast.Constant))]
                    return len(body) == 1 and isinstance(body[0], ast.Return) and isinstance(body[0].value, ast.Call) and ast.unparse(body[0].value.func) in ("list", "tuple", "dict", "set")
                return False
            alias = {}
            for st in ast.walk(fn):
                if isinstance(st, ast.Assign) and len(st.targets) == 1 and isinstance(st.targets[0], ast.Name) and isinstance(st.value, ast.Attribute) \
                        and isinstance(st.value.value, ast.Name) and st.value.value.id == self_ and not fresh(st.value.attr):
                    alias[st.targets[0].id] = st.value.attr
            hits = []
            for st in ast.walk(fn):
                tgt = None
                if isinstance(st, ast.AugAssign):
                    tgt = st.target
                elif isinstance(st, ast.Assign) and isinstance(st.targets[0], ast.Subscript):
                    tgt = st.targets[0].value
                elif isinstance(st, ast.Call) and isinstance(st.func, ast.Attribute) and st.func.attr in MUTATING:
                    tgt = st.func.value
                elif isinstance(st, ast.Delete) and isinstance(st.targets[0], ast.Subscript):
                    tgt = st.targets[0].value
                if tgt is None:
                    continue
                if isinstance(tgt, ast.Name) and tgt.id in alias:
                    hits.append("`%s` changes self.%s in place through the alias `%s`" % (ast.unparse(st)[:50], alias[tgt.id], tgt.id))
                elif isinstance(tgt, ast.Attribute) and isinstance(tgt.value, ast.Name) and tgt.value.id == self_ and not fresh(tgt.attr) and \
                        (isinstance(st, ast.AugAssign) and isinstance(st.target, ast.Attribute) is False or not isinstance(st, ast.AugAssign)):
                    hits.append("`%s` changes self.%s in place" % (ast.unparse(st)[:50], tgt.attr))
            n += 1
            ctx.ob("R03.6", "%s.%s:immutable" % (c.q, name), not hits, found=hits[:2] or "no in-place change of a field", required="methods build new values; the operands keep the fields their name, repr and hash were computed from",
                   mod=c.mod, node=fn, sig="mutation:%s" % ",".join(sorted({h.split("self.")[1].split(" ")[0] for h in hits})), trivial=True)
    return n


def is_strish(e, local, depth=0):
    """does the expression produce a str whatever the fields hold?"""
    if depth > 6:
        return False
    if isinstance(e, ast.JoinedStr) or (isinstance(e, ast.Constant) and isinstance(e.value, str)):
        return True
    if isinstance(e, ast.Call):
        f = ast.unparse(e.func)
        if f in ("str", "repr", "format", "format_number", "array2string") or f.endswith((".format", ".join", ".replace", ".strip", ".lower", ".upper", "__repr__", "__str__")) or f in ("super().__repr__", "super().__str__"):
            return True
        return False
    if isinstance(e, ast.BinOp) and isinstance(e.op, (ast.Add, ast.Mod)):
        return is_strish(e.left, local, depth + 1) and (isinstance(e.op, ast.Mod) or is_strish(e.right, local, depth + 1))
    if isinstance(e, ast.BinOp) and isinstance(e.op, ast.Mult):
        return is_strish(e.left, local, depth + 1) or is_strish(e.right, local, depth + 1)            # n * '.l'
    if isinstance(e, ast.IfExp):
        return is_strish(e.body, local, depth + 1) and is_strish(e.orelse, local, depth + 1)
    if isinstance(e, ast.BoolOp):
        return all(is_strish(v, local, depth + 1) for v in e.values)
    if isinstance(e, ast.Attribute) and ast.unparse(e) in local.get("__str_fields__", ()):
        return True
    if isinstance(e, ast.Name) and e.id in local:
        return all(is_strish(v, local, depth + 1) for v in local[e.id])
    return False


def check_returns_str(ctx, m):
    """R03.3: printing never fails: every __repr__ / __str__ returns a string whatever the fields hold (names may be any object)"""
    n = 0
    for c in classes_in_scope(m):
        for meth in ("__repr__", "__str__"):
            if meth not in c.methods:
                continue
            fn = c.methods[meth][0]
            local = {}
            # fields the constructor fills with a string it formats itself (e.g. the name of a Sum)
            try:
                pv = init_prov(m, c)
            except Exception:
                pv = {}

            def str_prov(t):
                return isinstance(t, tuple) and t and ((t[0] == "const" and isinstance(t[1], str)) or (t[0] == "call" and isinstance(t[1], str) and t[1].endswith((".format", "str", "repr")))
                                                       or (t[0] == "ite" and str_prov(t[2]) and str_prov(t[3])))
            self_n = fn.args.args[0].arg if fn.args.args else "self"
            local["__str_fields__"] = tuple("%s.%s" % (self_n, f.lstrip("_")) for f, t in pv.items() if str_prov(t)) + tuple("%s.%s" % (self_n, f) for f, t in pv.items() if str_prov(t))
            for st in ast.walk(fn):
                if isinstance(st, ast.Assign) and len(st.targets) == 1 and isinstance(st.targets[0], ast.Name):
                    local.setdefault(st.targets[0].id, []).append(st.value)
                elif isinstance(st, ast.AugAssign) and isinstance(st.target, ast.Name):
                    local.setdefault(st.target.id, []).append(st.value)
            bad = [ast.unparse(r.value)[:60] for r in ast.walk(fn) if isinstance(r, ast.Return) and r.value is not None and not is_strish(r.value, local)]
            n += 1
            ctx.ob("R03.3", "%s.%s:returns-str" % (c.q, meth), not bad, found=bad or "every return is a string expression", required="a str on every path (str(...), format, repr, concatenation of those): "
                   "names and data may be arbitrary objects, and messages of refusals are built from str(diagram)", mod=c.mod, node=fn, sig="returns-str", trivial=True)
    return n


def check_one_box(ctx, m):
    for q, one, empty in ((CAT + ".Arrow", ["len(self.boxes) == 1"], "repr(Id(self.dom))"),
                          (MON + ".Diagram", ["len(self.boxes) == 1 and self.dom == self.boxes[0].dom"], "repr(self.id(self.dom))")):
        fn = m.func(q + ".__repr__")
        ifs = [s for s in fn.body if isinstance(s, ast.If)]
        e = [s for s in ifs if ast.unparse(s.test) in ("not self.boxes", "len(self.boxes) == 0", "not self")]
        ok = bool(e) and isinstance(e[0].body[-1], ast.Return) and ast.unparse(e[0].body[-1].value) in (empty, "repr(Id(self.dom))", "repr(self.id(self.dom))")
        ctx.ob("R03.4", q + ".__repr__:empty", ok, found=[ast.unparse(s.test) for s in ifs], required="an empty arrow prints as the identity on its domain", mod=q.rsplit(".", 1)[0],
               node=fn, sig="repr-empty")
        o = [s for s in ifs if ast.unparse(s.test) in one]
        ok = bool(o) and isinstance(o[0].body[-1], ast.Return) and ast.unparse(o[0].body[-1].value) == "repr(self.boxes[0])"
        ctx.ob("R03.4", q + ".__repr__:one-box", ok, found=[ast.unparse(s.test) for s in ifs], required="a one-box arrow (typed like its box) prints as the box: `if %s: return repr(self.boxes[0])`" % one[0],
               mod=q.rsplit(".", 1)[0], node=fn, sig="repr-one-box")
    # Box.__hash__ goes through the arrow repr, monoidal.Box through its own repr
    for q, want in ((CAT + ".Box.__hash__", ["hash(super().__repr__())", "hash(repr(self))"]), (MON + ".Box.__hash__", ["hash(repr(self))"]),
                    (CAT + ".Arrow.__hash__", ["hash(repr(self))"]), (MON + ".Diagram.__hash__", ["hash(repr(self))"])):
        fn = m.func(q)
        r = fn.body[-1].value if isinstance(fn.body[-1], ast.Return) else None
        if r is not None and any(isinstance(n, ast.Call) and ast.unparse(n.func) == "id" for n in ast.walk(r)):
            ctx.ob("R03.4", q, False, found=ast.unparse(r), required="hash of the printed form, not of the object identity", mod=q.rsplit(".", 2)[0], node=fn, sig="hash-form-identity")
            continue
        shape.match(ctx, "R03.4", q, r, want, {}, mod=q.rsplit(".", 2)[0], node=fn, sig="hash-form", required="hash of the printed form (equal values print alike)")
    # Box.__repr__: the dagger flag is printed
    fn = m.func(CAT + ".Box.__repr__")
    d = [s for s in fn.body if isinstance(s, ast.If) and ast.unparse(s.test) in ("self._dagger", "self.is_dagger")]
    ok = bool(d) and ast.unparse(d[0].body[-1].value) == "repr(self.dagger()) + '.dagger()'"
    ctx.ob("R03.3", CAT + ".Box.__repr__:dagger", ok, found=[ast.unparse(s.test) for s in fn.body if isinstance(s, ast.If)], required="a daggered box prints as `<box>.dagger()`",
           mod=CAT, node=fn, sig="repr-dagger")


def check_total_order(ctx, m):
    """objects and boxes are totally ordered by name only for sorting; equality is not derived from the order"""
    for q in (CAT + ".Ob", CAT + ".Box"):
        c = m.cls(q)
        deco = [ast.unparse(d) for d in c.node.decorator_list]
        ctx.ob("R03.1", q + ":eq-not-from-order", "__eq__" in c.methods, found=deco, required="__eq__ is defined explicitly next to total_ordering", mod=c.mod, node=c.node,
               sig="total-ordering", trivial=True)
