import ast,sys
def strip(path):
    src=open(path).read(); tree=ast.parse(src); lines=src.split('\n')
    drop=set()
    for n in ast.walk(tree):
        if isinstance(n,(ast.FunctionDef,ast.ClassDef,ast.Module)) and n.body and isinstance(n.body[0],ast.Expr) and isinstance(n.body[0].value,ast.Constant) and isinstance(n.body[0].value.value,str):
            d=n.body[0]
            for i in range(d.lineno,d.end_lineno+1): drop.add(i)
    for i,l in enumerate(lines,1):
        if i not in drop and l.strip(): print("%4d %s"%(i,l))
for p in sys.argv[1:]:
    print("=====",p); strip(p)
