"""Prototype R14.1 / R02.4: reachable rebuilds bind, and rebuild the same object up to the intended change."""
import ast, sys
from .model import Model
from .prov import init_prov, analyse_rebuild, show, E, BindError

KEY = ("_name", "_dom", "_cod", "_data", "_dagger", "_mixed")


def subst(e, mapping):
    """replace ('self', a) and ('param', p) leaves"""
    if not isinstance(e, tuple) or not e:
        return e
    if not isinstance(e[0], str):
        return tuple(subst(x, mapping) for x in e)
    if e[0] in ("self", "param") and len(e) == 2 and (e[0], e[1]) in mapping:
        return mapping[(e[0], e[1])]
    if e[0] == "dict":
        return ("dict", {k: subst(v, mapping) for k, v in e[1].items()})
    if e[0] == "raw":
        return e
    return tuple(subst(x, mapping) if isinstance(x, tuple) else x for x in e)


def params_in(e, acc=None):
    acc = set() if acc is None else acc
    if isinstance(e, tuple) and e:
        if not isinstance(e[0], str):
            for x in e:
                params_in(x, acc)
        elif e[0] == "param":
            acc.add(e[1])
        elif e[0] == "dict":
            for v in e[1].values():
                params_in(v, acc)
        elif e[0] == "raw":
            acc.update(k for k, _ in e[2]) if len(e) > 2 and e[2] and isinstance(e[2][0], tuple) else None
        else:
            for x in e[1:]:
                params_in(x, acc)
    return acc


def data_free(prov):
    fs = prov.get("_free_symbols")
    return fs == ("call", "recursive_free_symbols", (("const", None),), ()) or prov.get("_data") == ("const", None)


def guarded_by_free_symbols(fn, ret_line):
    """is the rebuild preceded by `if not any(... free_symbols ...): return self/lambda: self` ?"""
    for st in fn.body:
        if isinstance(st, ast.If) and st.lineno < ret_line and "free_symbols" in ast.unparse(st.test):
            return True
    return False


def check(out=print, scope=("discopy.cat", "discopy.monoidal", "discopy.rigid", "discopy.tensor", "discopy.quantum.circuit",
                            "discopy.quantum.gates", "discopy.quantum.zx", "discopy.grammar.cfg", "discopy.grammar.pregroup",
                            "discopy.grammar.ccg", "discopy.biclosed")):
    M = Model()
    findings, n_inst, n_unreach = [], 0, 0
    for c in M.concrete_boxes():
        if c.mod not in scope:
            continue
        try:
            own = init_prov(M, c)
        except BindError as e:
            findings.append(("INIT", c.q, "-", str(e))); continue
        for m in ("subs", "lambdify"):
            owner, res = analyse_rebuild(M, c, m)
            fn = M.lookup(c, m)[1]
            for line, target, err, attrs in res:
                if data_free(own) and guarded_by_free_symbols(fn, line):
                    n_unreach += 1
                    continue
                n_inst += 1
                where = "%s.%s (defined in %s:%d)" % (c.q.replace("discopy.", ""), m, owner.q.replace("discopy.", ""), line)
                if err:
                    findings.append(("R14.1-bind", where, "", err)); continue
                to_params = {("self", a): v for a, v in own.items()}
                new = {a: subst(v, to_params) for a, v in attrs.items()}
                for a in KEY:
                    if a == "_data" or a not in own:
                        continue
                    exp, got = own[a], new.get(a, ("missing", a))
                    dps = params_in(own.get("_data", ()))
                    if params_in(exp) & dps:
                        continue            # derived from the data: must follow the new data (checked by the class's own __init__)
                    if got != exp:
                        findings.append(("R14.1-keep", where, a, "rebuilt %s = %s, self has %s" % (a, show(got), show(exp))))
    for f in findings:
        out("VIOLATION-CANDIDATE %-10s %-62s %s %s" % f)
    out("  %d reachable rebuilds analysed, %d unreachable (data-free class behind a free_symbols guard), %d findings" % (n_inst, n_unreach, len(findings)))
    return 1 if findings else 0


if __name__ == "__main__":
    sys.exit(check())
