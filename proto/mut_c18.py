import sys; sys.path.insert(0, '/tmp/spike')
from sa import c18
src = open('/repo/discopy/rigid.py').read()
muts = {
 'fa: left[off:] <-> left[:off]': ("return Id(left[:off]) @ Diagram.cups(left[off:], right)", "return Id(left[off:]) @ Diagram.cups(left[:off], right)"),
 'fa: off without `or len(left)`': ("off = -len(right) or len(left)", "off = -len(right)"),
 'ba: right[:off] only': ("return Diagram.cups(left, right[:off]) @ Id(right[off:])", "return Diagram.cups(left, right[:off]) @ Id(right)"),
 'fc: middle.l <-> middle.r': ("return Id(left) @ Diagram.cups(middle.l, middle) @ Id(right.l)", "return Id(left) @ Diagram.cups(middle.r, middle) @ Id(right.l)"),
 'bc: Id(left.r) -> Id(left.l)': ("return Id(left.r) @ Diagram.cups(middle, middle.r) @ Id(right)", "return Id(left.l) @ Diagram.cups(middle, middle.r) @ Id(right)"),
 'fx: swap(left, right.r) -> swap(right.r, left)': ("Diagram.swap(left, right.r) @ Diagram.cups(middle.l, middle)", "Diagram.swap(right.r, left) @ Diagram.cups(middle.l, middle)"),
 'bx: Id(right) dropped': ("return Id(middle) @ Diagram.swap(left.l, middle.r) @ Id(right) >>", "return Id(middle) @ Diagram.swap(left.l, middle.r) >>"),
 'curry: wires.l -> wires.r': (">> diagram @ Id(wires.l)", ">> diagram @ Id(wires.r)"),
 'curry left: dom[n_wires:] -> dom[:n_wires]': ("return Diagram.caps(wires.r, wires) @ Id(diagram.dom[n_wires:])", "return Diagram.caps(wires.r, wires) @ Id(diagram.dom[:n_wires])"),
 'BENIGN fa temp': ("off = -len(right) or len(left)", "n_right = len(right)\n        off = -n_right or len(left)"),
}
for name, (a, b) in muts.items():
    assert a in src, name
    open('/tmp/spike/m.py', 'w').write(src.replace(a, b, 1))
    msgs = []
    try: rc = c18.check('/tmp/spike/m.py', out=msgs.append)
    except Exception as e: rc = 'EXC %s: %s' % (type(e).__name__, e)
    v = [m for m in msgs if 'VIOLATION' in m or 'ANALYSIS' in m]
    print('%-46s rc=%s n=%d %s' % (name, rc, len(v), (v[0] if v else '')[:170]))
