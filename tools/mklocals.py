"""Record the local names and the orientation of the == / != comparisons of every function of /repo/discopy (in order of first binding) in sa/locals_table.json.
Run after confirming the checks on a tree: the table is the naming the rule modules refer to (see sa/alpha.py)."""
import ast, json, os, sys
VERIF = os.path.dirname(os.path.dirname(os.path.abspath(__file__)))
sys.path.insert(0, VERIF)
from sa import alpha, names, helpers
root = sys.argv[1] if len(sys.argv) > 1 else "/repo/discopy"
table, cmps, loops, exits, meths, ifs, nparams, negs, rebinds, lifs, iftests, scomps, fcalls = {}, {}, {}, {}, {}, {}, {}, {}, {}, {}, {}, {}, {}
for dp, dn, fns in os.walk(root):
    dn[:] = [d for d in dn if d != "__pycache__"]
    for f in sorted(fns):
        if f.endswith(".py"):
            p = os.path.join(dp, f)
            name = "discopy" + p[len(root):-3].replace(os.sep, ".")
            if name.endswith(".__init__"):
                name = name[:-9]
            t = alpha.table_of(ast.parse(open(p).read()))
            if t:
                table[name] = t
            c = alpha.compare_table_of(ast.parse(open(p).read()))
            if c:
                cmps[name] = c
            exits[name] = names.exits_table_of(name, ast.parse(open(p).read()))
            meths[name] = names.methods_table_of(name, ast.parse(open(p).read()))
            ifs[name] = helpers.ifs_table_of(ast.parse(open(p).read()))
            negs[name] = helpers.neg_guards_of(ast.parse(open(p).read()))
            rebinds[name] = helpers.param_rebinds_of(name, ast.parse(open(p).read()))
            lifs[name] = helpers.loop_ifelse_of(ast.parse(open(p).read()))
            iftests[name] = helpers.if_tests_of(ast.parse(open(p).read()))
            scomps[name] = helpers.star_comps_of(ast.parse(open(p).read()))
            fcalls[name] = helpers.fold_calls_of(ast.parse(open(p).read()))
            nparams[name] = helpers.nested_params_of(name, ast.parse(open(p).read()))
            lp = alpha.loop_table_of(ast.parse(open(p).read()))
            if lp:
                loops[name] = lp
json.dump(table, open(alpha.TABLE, "w"), indent=0, sort_keys=True)
json.dump(cmps, open(alpha.CMP_TABLE, "w"), indent=0, sort_keys=True)
json.dump(loops, open(alpha.LOOP_TABLE, "w"), indent=0, sort_keys=True)
json.dump(exits, open(names.EXITS_TABLE, "w"), indent=0, sort_keys=True)
json.dump(meths, open(names.METHODS_TABLE, "w"), indent=0, sort_keys=True)
json.dump({"ifs": ifs, "nested_params": nparams, "neg_guards": negs, "param_rebinds": rebinds, "loop_ifelse": lifs, "if_tests": iftests, "star_comps": scomps, "fold_calls": fcalls}, open(helpers.IFS_TABLE, "w"), indent=0, sort_keys=True)
print("%d modules, %d functions with locals" % (len(table), sum(len(v) for v in table.values())))
