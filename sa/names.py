"""Rule N (every property): every name read by the code the check relies on is bound.

A function the property's check analysed — or one it can reach by name inside the property's anchor files — that reads a name bound neither in
the function, an enclosing function, its module nor the builtins raises NameError the first time that line runs: whatever the property promises
about the function's result is then void.  The tests accept such an edit whenever the line is not covered (an untested branch, an untested
class), which is exactly the case the properties are about.

Decided from the raw source with the standard `symtable` (the compiler's own scope analysis), not from the normalised model: the scope of a
name is what CPython will use at run time.  discopy has no `global` / `nonlocal` / `del` / star-import / exec (checked on every run: any of
them makes this rule an analysis error rather than a guess)."""
import ast
import builtins
import json
import os
import symtable

from .core import AnalysisError, VERIF

BUILTINS = set(dir(builtins)) | {"__file__", "__name__", "__doc__", "__class__"}
DYNAMIC = ("exec", "eval", "globals", "locals", "vars", "__import__", "setattr")


def anchor_modules(prop):
    for l in open(os.path.join(VERIF, "properties.jsonl")):
        p = json.loads(l)
        if p["id"] == prop:
            return [f[:-3].replace("/", ".") for f in p["anchors"]["files"]]
    raise AnalysisError("property %s not found in properties.jsonl" % prop)


def index_functions(mod, tree):
    """qualified name -> FunctionDef for every function of the module at any depth, and class name -> ClassDef"""
    funcs, classes = {}, {}

    def rec(body, prefix):
        for n in body:
            if isinstance(n, ast.ClassDef):
                classes[".".join(prefix + [n.name])] = n
                rec(n.body, prefix + [n.name])
            elif isinstance(n, (ast.FunctionDef, ast.AsyncFunctionDef)):
                funcs[".".join(prefix + [n.name])] = n
                rec(n.body, prefix + [n.name])
            elif isinstance(n, (ast.If, ast.Try, ast.With, ast.For, ast.While)):
                for field in ("body", "orelse", "finalbody", "handlers"):
                    for x in getattr(n, field, []):
                        rec(x.body if isinstance(x, ast.ExceptHandler) else [x], prefix)
    rec(tree.body, [])
    return funcs, classes


def mentioned(node):
    out = set()
    for n in ast.walk(node):
        if isinstance(n, ast.Name):
            out.add(n.id)
        elif isinstance(n, ast.Attribute):
            out.add(n.attr)
    return out


def unbound_in(table, module_names, path=()):
    """(scope path, name) for every name a function / class scope reads as an implicit global that the module does not bind"""
    out = []
    for child in table.get_children():
        p = path + (child.get_name(),)
        if child.get_type() in ("function", "class"):
            for s in child.get_symbols():
                if s.is_referenced() and s.is_global() and not s.is_declared_global() and s.get_name() not in module_names and s.get_name() not in BUILTINS:
                    out.append((p, child.get_lineno(), s.get_name()))
        out += unbound_in(child, module_names, p)
    return out


def _header_exprs(st):
    """the expressions a statement evaluates itself (the bodies of compound statements are statements of their own)"""
    if isinstance(st, (ast.If, ast.While)):
        return [st.test]
    if isinstance(st, ast.For):
        return [st.iter]
    if isinstance(st, ast.With):
        return [i.context_expr for i in st.items]
    if isinstance(st, ast.Try):
        return []
    if isinstance(st, (ast.FunctionDef, ast.AsyncFunctionDef)):
        return list(st.decorator_list) + [d for d in st.args.defaults + st.args.kw_defaults if d is not None]
    if isinstance(st, ast.ClassDef):
        return list(st.decorator_list) + list(st.bases)
    return [st]


def _names(exprs, ctx_type):
    """Name nodes of the given context evaluated in the function's own scope (nested functions / lambdas are entered only for their defaults; comprehension variables are their own)"""
    out = []

    def rec(n, hidden):
        if isinstance(n, ast.Lambda):
            for d in n.args.defaults + n.args.kw_defaults:
                if d is not None:
                    rec(d, hidden)
            return                                  # the body runs later
        if isinstance(n, (ast.FunctionDef, ast.AsyncFunctionDef, ast.ClassDef)) and n not in exprs:
            return
        if isinstance(n, (ast.ListComp, ast.SetComp, ast.GeneratorExp, ast.DictComp)):
            own = {x.id for g in n.generators for x in ast.walk(g.target) if isinstance(x, ast.Name)}
            for k, g in enumerate(n.generators):
                rec(g.iter, hidden if k == 0 else hidden | own)
                for c in g.ifs:
                    rec(c, hidden | own)
            for e in ([n.key, n.value] if isinstance(n, ast.DictComp) else [n.elt]):
                rec(e, hidden | own)
            return
        if isinstance(n, ast.Name) and isinstance(n.ctx, ctx_type) and n.id not in hidden:
            out.append(n)
        for c in ast.iter_child_nodes(n):
            rec(c, hidden)
    for e in exprs:
        if isinstance(e, (ast.FunctionDef, ast.AsyncFunctionDef, ast.ClassDef)):
            continue
        rec(e, frozenset())
    return out


def unreachable_reads(fn):
    """(statement, name) for every read of a local of `fn` at a statement that no binding of that local can precede on any path"""
    from .cfg import CFG
    try:
        g = CFG(fn)
    except Exception:
        return []
    params = {a.arg for a in fn.args.posonlyargs + fn.args.args + fn.args.kwonlyargs} | ({fn.args.vararg.arg} if fn.args.vararg else set()) | ({fn.args.kwarg.arg} if fn.args.kwarg else set())
    defs = {}          # name -> set of node ids binding it
    reads = {}         # node id -> set of names read
    for k, st in g.nodes.items():
        bound = set()
        if isinstance(st, (ast.FunctionDef, ast.AsyncFunctionDef, ast.ClassDef)):
            bound.add(st.name)
        elif isinstance(st, (ast.Import, ast.ImportFrom)):
            bound |= {(a.asname or a.name).split(".")[0] for a in st.names}
        elif isinstance(st, ast.For):
            bound |= {x.id for x in ast.walk(st.target) if isinstance(x, ast.Name)}
        elif isinstance(st, ast.With):
            bound |= {x.id for i in st.items if i.optional_vars is not None for x in ast.walk(i.optional_vars) if isinstance(x, ast.Name)}
        elif isinstance(st, ast.Try):
            bound |= {h.name for h in st.handlers if h.name}
        bound |= {x.id for x in _names(_header_exprs(st), ast.Store)}
        bound |= {x.target.id for e in _header_exprs(st) for x in ast.walk(e) if isinstance(x, ast.NamedExpr) and isinstance(x.target, ast.Name)}
        for b in bound:
            defs.setdefault(b, set()).add(k)
        reads[k] = {x.id for x in _names(_header_exprs(st), ast.Load)}
        if isinstance(st, ast.AugAssign) and isinstance(st.target, ast.Name):
            reads[k].add(st.target.id)
    local = set(defs) - params
    if any(isinstance(n, (ast.Global, ast.Nonlocal)) for n in ast.walk(fn)):
        return []
    reach_cache = {}

    def reachable_from(k):
        if k not in reach_cache:
            seen, todo = set(), list(g.succ.get(k, ()))
            while todo:
                x = todo.pop()
                if x in seen:
                    continue
                seen.add(x)
                todo.extend(g.succ.get(x, ()))
            reach_cache[k] = seen
        return reach_cache[k]
    out = []
    for k, names_ in reads.items():
        for v in sorted(names_ & local):
            if not any(k in reachable_from(d) for d in defs[v]):
                out.append((g.nodes[k], v))
    return out


def check_names(ctx, rule=None):
    prop = ctx.prop
    rule = rule or "R%s.N" % prop[1:]
    m = ctx.model
    mods = [x for x in anchor_modules(prop) if x in m.sources]
    ctx.need(mods, "no anchor module of %s found" % prop)
    ctx.rule(rule, "every name read by a function the check analysed, or reachable from one by name inside the anchor files, is bound in its function, an enclosing one, its module or the builtins")
    index, classes, raw = {}, {}, {}
    for mod in mods:
        src = m.sources[mod]
        tree = ast.parse(src)
        raw[mod] = (src, tree)
        for n in ast.walk(tree):
            if isinstance(n, (ast.Global, ast.Nonlocal, ast.Delete)) and not (isinstance(n, ast.Delete) and all(isinstance(t, (ast.Subscript, ast.Attribute)) for t in n.targets)):
                raise AnalysisError("%s: %s statement at line %d: name binding is no longer lexical, rule N cannot decide" % (mod, type(n).__name__.lower(), n.lineno))
            if isinstance(n, ast.ImportFrom) and any(a.name == "*" for a in n.names):
                raise AnalysisError("%s: star import at line %d: rule N cannot decide" % (mod, n.lineno))
            if isinstance(n, ast.Call) and isinstance(n.func, ast.Name) and n.func.id in DYNAMIC and n.func.id not in ("setattr",):
                raise AnalysisError("%s: %s() at line %d: rule N cannot decide" % (mod, n.func.id, n.lineno))
        f, c = index_functions(mod, tree)
        for q, node in f.items():
            index[mod + "." + q] = (mod, node)
        for q, node in c.items():
            classes[mod + "." + q] = (mod, node)
    # ---- scope: analysed functions, closed under mention-by-name inside the anchor files
    seeds = {q for q in ctx.functions if q in index}
    for q in ctx.functions:                              # a class recorded as analysed stands for its methods
        if q in classes:
            seeds |= {k for k in index if k.startswith(q + ".")}
    reach, work = set(), list(seeds)
    by_name, cls_by_name = {}, {}
    for q in index:
        by_name.setdefault(q.rsplit(".", 1)[1], set()).add(q)
    for q in classes:
        cls_by_name.setdefault(q.rsplit(".", 1)[1], set()).add(q)
    while work:
        q = work.pop()
        if q in reach:
            continue
        reach.add(q)
        names = mentioned(index[q][1])
        for nm in names:
            for k in by_name.get(nm, ()):
                if k not in reach:
                    work.append(k)
            for c in cls_by_name.get(nm, ()):
                for k in index:
                    if k.startswith(c + ".") and k[len(c) + 1:].startswith("__") and k not in reach:
                        work.append(k)
    ctx.need(seeds, "rule N: none of the functions recorded as analysed lies in the anchor files of %s" % prop)
    # ---- positive control: the detector must find the unbound name of a tiny example on every run
    ctl = "import os\nK = 1\ndef f(a):\n    def g():\n        return a + K + missing_name\n    return [os.sep for _ in g()] + [len(b) for b in other]\n"
    top = symtable.symtable(ctl, "<control>", "exec")
    found = sorted(n for _, _, n in unbound_in(top, {x.get_name() for x in top.get_symbols() if x.is_assigned() or x.is_imported() or x.is_namespace()}))
    ctx.need(found == ["missing_name", "other"], "rule N: the positive control reports %s instead of the two unbound names" % found)
    ctl2 = ast.parse("def f(c, xs):\n    if c:\n        a = 1\n        return a\n    for x in xs:\n        b = x\n    print(b)\n    return a + [y for y in xs][0]\n").body[0]
    found2 = sorted(n for _, n in unreachable_reads(ctl2))
    ctx.need(found2 == ["a"], "rule N: the positive control for locals reports %s instead of the one read no assignment reaches" % found2)
    # ---- the compiler's scope analysis per module
    bad = {}
    for mod, (src, tree) in raw.items():
        top = symtable.symtable(src, m.path_of(mod), "exec")
        module_names = {s.get_name() for s in top.get_symbols() if s.is_assigned() or s.is_imported() or s.is_namespace()}
        for path, lineno, name in unbound_in(top, module_names):
            bad.setdefault(mod + "." + ".".join(path), []).append((name, lineno))
    n_ok, seen = 0, set()
    for q in sorted(reach):
        mod, node = index[q]
        hits = [(k, v) for k, v in bad.items() if k == q or k.startswith(q + ".")]
        if not hits:
            n_ok += 1
            continue
        for k, lst in hits:
            for name, lineno in lst:
                if (k, name) in seen:
                    continue
                seen.add((k, name))
                use = next((x for x in ast.walk(node) if isinstance(x, ast.Name) and x.id == name), node)
                ctx.ob(rule, "%s:%s" % (k, name), False, found="`%s` is read but bound neither in the function, an enclosing function, module %s nor the builtins" % (name, mod),
                       required="every name read is bound (NameError otherwise)", mod=mod, node=use, sig="unbound-" + name)
    # ---- locals that no assignment can reach (UnboundLocalError): a name bound somewhere in the function, read at a statement that no binding of it leads to
    for q in sorted(reach):
        mod, node = index[q]
        for stmt, name in unreachable_reads(node):
            ctx.ob(rule, "%s:%s" % (q, name), False, found="`%s` is read at line %d, but no assignment to it in %s can have been executed before (every binding lies on another path)" % (name, stmt.lineno, node.name),
                   required="a local is bound on some path leading to each of its reads (UnboundLocalError otherwise)", mod=mod, node=stmt, sig="unreached-" + name)
    ctx.ob(rule, "names:%d functions" % len(reach), True, found="%d functions in scope (%d analysed directly), all names bound in %d" % (len(reach), len(seeds), n_ok),
           required="every name read is bound", mod=mods[0], node=None)
    ctx.notes.append("rule N scope: %d functions of %s" % (len(reach), ", ".join(mods)))


# ---------------------------------------------------------------------------------------------------------------------
# Rule X (every property): a function the check analysed has no exit the rules have never seen
# ---------------------------------------------------------------------------------------------------------------------
EXITS_TABLE = os.path.join(VERIF, "sa", "exits_table.json")


def count_exits(fn):
    """return / yield statements of the function's own scope (nested functions are functions of their own)"""
    from .alpha import own_nodes
    return sum(1 for n in own_nodes(fn) if isinstance(n, (ast.Return, ast.Yield, ast.YieldFrom)))


def exits_table_of(mod, tree):
    funcs, _ = index_functions(mod, tree)
    return {q: count_exits(f) for q, f in funcs.items()}


def check_exits(ctx):
    """A `return` added to an analysed function (a fast path, a cache hit, a new special case) is an exit no rule has read: the rules decide the exits they know,
    so the run cannot vouch for the function any more.  Reported as an analysis error (exit 2), never as a violation and never silently passed."""
    if not os.path.exists(EXITS_TABLE):
        return
    table = json.load(open(EXITS_TABLE))
    m = ctx.model
    new = []
    for mod, tree in m.modules.items():
        rec = table.get(mod)
        if rec is None:
            continue
        funcs, classes = index_functions(mod, tree)
        for q, f in funcs.items():
            full = mod + "." + q
            if full not in ctx.functions and not any(full.startswith(c + ".") for c in ctx.functions if c in {mod + "." + k for k in classes}):
                continue
            if q in rec and count_exits(f) > rec[q]:
                new.append("%s has %d return / yield statements, the rules were confirmed on %d" % (full, count_exits(f), rec[q]))
    if new and ctx.broken is None:
        ctx.broken = "an analysed function has an exit the rules have never read (a fast path / cache / special case added): " + "; ".join(new[:3])


# ---------------------------------------------------------------------------------------------------------------------
# Rule M (every property): no class of the anchor files overrides an operation the rules resolve along the MRO without the rules having read it
# ---------------------------------------------------------------------------------------------------------------------
METHODS_TABLE = os.path.join(VERIF, "sa", "methods_table.json")
OPERATIONS = {"then", "tensor", "dagger", "subs", "lambdify", "grad", "jacobian", "eval", "array", "dom", "cod", "boxes", "offsets", "layers", "free_symbols", "id", "swap", "permutation", "cups", "caps",
              "upgrade", "downgrade", "bubble", "interchange", "normalize", "normal_form", "foliate", "foliation", "flatten", "transpose", "name", "data", "is_dagger", "is_mixed", "l", "r", "z", "objects",
              "terms", "inside", "measure", "get_counts", "to_tk", "to_pyzx", "draw", "phase", "bitstring", "function", "utensor", "classical", "quantum", "map", "conjugate", "zeros", "count"}


def methods_table_of(mod, tree):
    _, classes = index_functions(mod, tree)
    return {q: sorted(n.name if isinstance(n, (ast.FunctionDef, ast.AsyncFunctionDef)) else t.id for n in c.body for t in ([n] if isinstance(n, (ast.FunctionDef, ast.AsyncFunctionDef)) else
                      [x for tt in n.targets for x in (tt.elts if isinstance(tt, ast.Tuple) else [tt]) if isinstance(x, ast.Name)] if isinstance(n, ast.Assign) else []))
            for q, c in classes.items()}


def check_new_methods(ctx):
    """A method added to a class (say `Sum.__getitem__`, or `subs` on a base class) changes what the special syntax and the inherited operations of every subclass mean.  The rules read the
    methods that existed when they were confirmed; an override they have never read makes the run an analysis error (exit 2) unless another rule establishes a violation."""
    if not os.path.exists(METHODS_TABLE):
        return
    table = json.load(open(METHODS_TABLE))
    m = ctx.model
    new = []
    for mod in [x for x in anchor_modules(ctx.prop) if x in m.modules]:
        rec = table.get(mod, {})
        for q, names_ in methods_table_of(mod, m.modules[mod]).items():
            if q not in rec:
                continue
            for nm in names_:
                if nm not in rec[q] and ((nm.startswith("__") and nm.endswith("__")) or nm in OPERATIONS):
                    new.append("%s.%s.%s" % (mod, q, nm))
    if new and ctx.broken is None:
        ctx.broken = "a class of the anchor files defines an operation the rules have never read (it changes what the syntax / the inherited method means for the class and its subclasses): " + ", ".join(new[:4])
