import sys, shutil; sys.path.insert(0, '/tmp/spike')
from sa import c20
src = open('/repo/discopy/drawing.py').read()
muts = {
 'half_width without +1': ("half_width = len(box.cod[:-1]) / 2 + 1", "half_width = len(box.cod[:-1]) / 2"),
 'left shift strict': ("                if position[0] <= limit:", "                if position[0] < limit:"),
 'right pad without half_width': ("pad = x_pos + half_width - limit", "pad = x_pos - limit"),
 'left pad sign': ("pad = limit - x_pos + half_width", "pad = x_pos - limit + half_width"),
 'x_pos not midpoint': ("x_pos = (pos[scan[off]][0] + right) / 2", "x_pos = (pos[scan[off]][0] + right) / 3"),
 'spread off-centre': ("else x_pos - len(box.cod[1:]) / 2 + i,", "else x_pos - len(box.cod[1:]) / 2 + i + 1,"),
 'right shift moves y': ("pos[node] = (pos[node][0] + pad, pos[node][1])", "pos[node] = (pos[node][0] + pad, pos[node][1] + pad)"),
 'BENIGN temp': ("        half_width = len(box.cod[:-1]) / 2 + 1", "        n_out = len(box.cod[:-1])\n        half_width = n_out / 2 + 1"),
}
for name, (a, b) in muts.items():
    assert a in src, name
    shutil.rmtree('/tmp/spike/scratch', ignore_errors=True)
    shutil.copytree('/repo/discopy', '/tmp/spike/scratch/discopy', ignore=shutil.ignore_patterns('__pycache__'))
    open('/tmp/spike/scratch/discopy/drawing.py', 'w').write(src.replace(a, b, 1))
    msgs = []
    try: rc = c20.check(out=msgs.append, root='/tmp/spike/scratch/discopy')
    except BaseException as e: rc = 'EXC %s: %s' % (type(e).__name__, e)
    v = [m for m in msgs if 'VIOLATION' in m or 'ANALYSIS' in m]
    print('%-32s rc=%s n=%d %s' % (name, rc, len(v), (v[0] if v else '')[:170]))
shutil.rmtree('/tmp/spike/scratch', ignore_errors=True)
