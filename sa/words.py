"""Symbolic sequences: words over atoms (types) and lists, with slices whose bounds are linear forms."""
from .lin import Lin, Facts


class Unlocatable(Exception):
    """A slice boundary cannot be placed with the facts in scope."""


class Atom:
    """An opaque symbolic sequence (a type segment, or a list such as `self.boxes`)."""
    _count = 0

    def __init__(self, name, length=None, elem=None):
        self.name = name
        self.length = Lin.of(length) if length is not None else Lin.var("|%s|" % name)
        self.elem = elem        # callable index(Lin) -> abstract element, for lists

    def __repr__(self):
        return self.name


class Seg:
    """atom[lo:hi]; if rev: reversed and adjoint-shifted by z (for .l/.r)."""
    __slots__ = ("atom", "lo", "hi", "rev", "z")

    def __init__(self, atom, lo=None, hi=None, rev=False, z=0):
        self.atom, self.rev, self.z = atom, rev, z
        self.lo = Lin.of(0) if lo is None else Lin.of(lo)
        self.hi = atom.length if hi is None else Lin.of(hi)

    @property
    def length(self):
        return self.hi - self.lo

    def key(self):
        return (id(self.atom), self.lo, self.hi, self.rev, self.z)

    def __eq__(self, o):
        return isinstance(o, Seg) and self.key() == o.key()

    def __hash__(self):
        return hash(self.key())

    def is_full(self):
        return self.lo == 0 and self.hi == self.atom.length

    def __repr__(self):
        s = self.atom.name
        if not self.is_full():
            s += "[%r:%r]" % (self.lo, self.hi)
        if self.rev or self.z:
            s += "~%s%d" % ("r" if self.rev else "", self.z)
        return s


class Item:
    """A literal element (length 1)."""
    __slots__ = ("value",)
    length = Lin.of(1)

    def __init__(self, value):
        self.value = value

    def __eq__(self, o):
        return isinstance(o, Item) and (self.value is o.value or self.value == o.value)

    def __hash__(self):
        return hash(("item", id(self.value)))

    def __repr__(self):
        return "<%r>" % (self.value,)


class Rep:
    """n copies of one element."""
    __slots__ = ("n", "value")

    def __init__(self, n, value):
        self.n, self.value = Lin.of(n), value

    @property
    def length(self):
        return self.n

    def __eq__(self, o):
        return isinstance(o, Rep) and self.n == o.n and self.value == o.value

    def __hash__(self):
        return hash(("rep", self.n))

    def __repr__(self):
        return "%r*<%r>" % (self.n, self.value)


class MapSeg:
    """[fn(x) for x in seg]; fn_key is a normal form of the body used for equality."""
    __slots__ = ("seg", "fn", "fn_key")

    def __init__(self, seg, fn, fn_key):
        self.seg, self.fn, self.fn_key = seg, fn, fn_key

    @property
    def length(self):
        return self.seg.length

    def __eq__(self, o):
        return isinstance(o, MapSeg) and self.seg == o.seg and self.fn_key == o.fn_key

    def __hash__(self):
        return hash(("map", self.seg, self.fn_key))

    def __repr__(self):
        return "map(%s, %r)" % (self.fn_key, self.seg)


class Seq:
    """Concatenation of parts (Seg / Item / Rep / MapSeg), kept merged and free of provably empty parts."""

    def __init__(self, parts=()):
        self.parts = self._norm(list(parts))

    @staticmethod
    def atom(a):
        return Seq([Seg(a)])

    @staticmethod
    def _norm(parts):
        out = []
        for p in parts:
            if p.length == 0:
                continue
            if out and isinstance(p, Seg) and isinstance(out[-1], Seg):
                q = out[-1]
                if q.atom is p.atom and q.rev == p.rev and q.z == p.z:
                    if not p.rev and q.hi == p.lo:
                        out[-1] = Seg(p.atom, q.lo, p.hi, p.rev, p.z)
                        continue
                    if p.rev and p.hi == q.lo:
                        out[-1] = Seg(p.atom, p.lo, q.hi, p.rev, p.z)
                        continue
            if out and isinstance(p, MapSeg) and isinstance(out[-1], MapSeg) and p.fn_key == out[-1].fn_key:
                m = Seq([out[-1].seg, p.seg])
                if len(m.parts) == 1:
                    out[-1] = MapSeg(m.parts[0], p.fn, p.fn_key)
                    continue
            out.append(p)
        return tuple(out)

    def __add__(self, o):
        return Seq(self.parts + o.parts)

    __matmul__ = __add__

    def simplify(self, facts):
        """drop the parts that the facts prove empty"""
        return Seq([p for p in self.parts if not facts.zero(p.length)])

    def same(self, o, facts):
        return isinstance(o, Seq) and self.simplify(facts) == o.simplify(facts)

    @property
    def length(self):
        r = Lin.of(0)
        for p in self.parts:
            r = r + p.length
        return r

    def __eq__(self, o):
        return isinstance(o, Seq) and self.parts == o.parts

    def __hash__(self):
        return hash(self.parts)

    def __repr__(self):
        return " ".join(map(repr, self.parts)) or "ε"

    # -- slicing ------------------------------------------------------------
    def _locate(self, pos, facts):
        """return (k, inner) : position `pos` is `inner` into part k (0 <= inner <= len(part k))."""
        cum = Lin.of(0)
        bounds = [cum]
        for p in self.parts:
            cum = cum + p.length
            bounds.append(cum)
        for k, b in enumerate(bounds):                     # exact boundary first
            if facts.eq(pos, b):
                return (k, Lin.of(0)) if k < len(self.parts) else (k - 1, self.parts[-1].length) if self.parts else (0, Lin.of(0))
        for k, p in enumerate(self.parts):
            if facts.le(bounds[k], pos) and facts.le(pos, bounds[k + 1]):
                return k, pos - bounds[k]
        raise Unlocatable("cannot place position %r in %r (length %r)" % (pos, self, self.length))

    def _norm_index(self, idx, facts, default):
        if idx is None:
            return default
        idx = Lin.of(idx)
        s = facts.sign(idx)
        if s in ("+", "0", ">=0"):
            if facts.le(idx, self.length):
                return idx
            if facts.le(self.length, idx):
                return self.length                       # python clamps (decided by the facts)
            raise Unlocatable("index %r not provably <= length %r of %r" % (idx, self.length, self))
        if s == "-":
            j = self.length + idx
            if facts.nonneg(j):
                return j
            if facts.nonneg(-j):
                return Lin.of(0)                         # python clamps (decided by the facts)
            raise Unlocatable("negative index %r not provably >= -length of %r" % (idx, self))
        raise Unlocatable("sign of index %r unknown (facts: %r)" % (idx, facts.ge))

    def slice(self, lo, hi, facts=None):
        facts = facts or Facts()
        lo = self._norm_index(lo, facts, Lin.of(0))
        hi = self._norm_index(hi, facts, self.length)
        if not facts.le(lo, hi):
            raise Unlocatable("slice bounds %r:%r not provably ordered" % (lo, hi))
        if not self.parts or facts.eq(lo, hi):
            return Seq()
        k0, i0 = self._locate(lo, facts)
        k1, i1 = self._locate(hi, facts)
        out = []
        for k in range(k0, min(k1, len(self.parts) - 1) + 1):
            p = self.parts[k]
            a = i0 if k == k0 else Lin.of(0)
            b = i1 if k == k1 else p.length
            out.append(_cut(p, a, b))
        return Seq(out)

    def item(self, idx, facts=None):
        s = self.slice(idx, Lin.of(idx) + 1, facts)
        if len(s.parts) != 1:
            raise Unlocatable("item %r of %r" % (idx, self))
        p = s.parts[0]
        if isinstance(p, Item):
            return p.value
        if isinstance(p, Rep):
            return p.value
        if isinstance(p, Seg) and p.atom.elem is not None and not p.rev:
            return p.atom.elem(p.lo)
        if isinstance(p, MapSeg):
            return p.fn(p.seg.atom.elem(p.seg.lo))
        raise Unlocatable("no element view for %r" % (p,))

    # -- adjoints (types only) ---------------------------------------------
    def adjoint(self, dz):
        out = []
        for p in reversed(self.parts):
            if not isinstance(p, Seg):
                raise TypeError("adjoint of a non-type sequence")
            z, rev = p.z + dz, not p.rev
            out.append(Seg(p.atom, p.lo, p.hi, rev, z))
        return Seq(out)

    @property
    def l(self):
        return self.adjoint(-1)

    @property
    def r(self):
        return self.adjoint(+1)


def _cut(p, a, b):
    if isinstance(p, Seg):
        if not p.rev:
            return Seg(p.atom, p.lo + a, p.lo + b, p.rev, p.z)
        return Seg(p.atom, p.hi - b, p.hi - a, p.rev, p.z)
    if isinstance(p, Rep):
        return Rep(b - a, p.value)
    if isinstance(p, MapSeg):
        return MapSeg(_cut(p.seg, a, b), p.fn, p.fn_key)
    if isinstance(p, Item):
        if a == 0 and b == 1:
            return p
        if a == b:
            return Rep(0, None)
    raise Unlocatable("cannot cut %r at %r:%r" % (p, a, b))
