"""Evaluate sub-agent seeded changes:  seed_eval.py <PROP> <dir with change_i.diff / demo_i.py> [--keep]

For each change: apply it to a scratch copy of /repo (outside /repo and /verif), confirm that (1) the pinned suite still passes,
(2) the demo fails with the change and passes without it, then run the property's check (and all other checks) on the changed tree.
Confirmed changes are stored under /verif/seeded/<PROP>-<k>/ (patch.diff, demo.py, meta.json)."""
import json, os, shutil, subprocess, sys, tempfile, glob
VERIF = os.path.dirname(os.path.dirname(os.path.abspath(__file__)))
prop, src = sys.argv[1], sys.argv[2]
allprops = sorted(f[:-3].upper() for f in os.listdir(os.path.join(VERIF, "sa", "rules")) if len(f) == 6 and f.startswith("c") and f.endswith(".py") and f[1:3].isdigit())

def run(cmd, **kw):
    return subprocess.run(cmd, capture_output=True, text=True, **kw)

existing = len(glob.glob(os.path.join(VERIF, "seeded", prop + "-*")))
for diff in sorted(glob.glob(os.path.join(src, "change_*.diff"))):
    i = os.path.basename(diff)[7:-5]
    demo = os.path.join(src, "demo_%s.py" % i)
    tmp = tempfile.mkdtemp(prefix="seed_")
    try:
        shutil.copytree("/repo", tmp, dirs_exist_ok=True, ignore=shutil.ignore_patterns(".git", "__pycache__", "docs", "*.egg-info"))
        env = dict(os.environ, PYTHONPATH=tmp, MPLBACKEND="Agg")
        d0 = run(["/venv/bin/python", demo], env=env, cwd=tmp, timeout=600)
        ap = run(["patch", "-p1", "-i", diff], cwd=tmp)
        if ap.returncode:
            print("%s change %s: patch does not apply: %s" % (prop, i, ap.stdout[-200:])); continue
        d1 = run(["/venv/bin/python", demo], env=env, cwd=tmp, timeout=600)
        st = run(["/venv/bin/python", os.path.join(VERIF, "tools", "suite.py"), tmp], timeout=1800)
        suite_ok = st.returncode == 0
        res = {}
        for p in allprops:
            r = run([sys.executable, "-m", "sa.check", p, "--repo", tmp, "--out", os.path.join(tmp, "_o")], cwd=VERIF, timeout=600)
            res[p] = {0: "silent", 1: "violation", 2: "analysis-error"}.get(r.returncode, str(r.returncode))
            if p == prop:
                detail = [l.strip() for l in r.stdout.splitlines() if l.startswith("  R") or l.startswith("ANALYSIS")][:4]
        confirmed = d0.returncode == 0 and d1.returncode != 0 and suite_ok
        caught = [p for p, v in res.items() if v == "violation"]
        print("%s change %s: demo without=%d with=%d suite=%s confirmed=%s | own check: %s | caught by %s | errors %s"
              % (prop, i, d0.returncode, d1.returncode, "pass" if suite_ok else "FAIL", confirmed, res[prop], caught, [p for p, v in res.items() if v == "analysis-error"]))
        for l in detail:
            print("      " + l[:200])
        if confirmed:
            existing += 1
            out = os.path.join(VERIF, "seeded", "%s-%d" % (prop, existing))
            os.makedirs(out, exist_ok=True)
            shutil.copy(diff, os.path.join(out, "patch.diff"))
            shutil.copy(demo, os.path.join(out, "demo.py"))
            head = open(demo).read().split("\n")[:12]
            json.dump({"property": prop, "origin": "independent sub-agent given only the property text and a scratch worktree",
                       "needs": " ".join(l.lstrip("# ") for l in head if l.startswith("#"))[:600],
                       "confirmed": {"suite_passes_with_change": suite_ok, "demo_exit_without": d0.returncode, "demo_exit_with": d1.returncode,
                                     "how": "tools/seed_eval.py: scratch copy of /repo, patch -p1, tools/suite.py, demo run with PYTHONPATH=<copy>"},
                       "checks_on_changed_tree": res, "caught_by": caught}, open(os.path.join(out, "meta.json"), "w"), indent=1)
    finally:
        shutil.rmtree(tmp, ignore_errors=True)
