"""Regenerate MANIFEST.json from the table below and validate it against the schema."""
import json, os, sys
VERIF = os.path.dirname(os.path.dirname(os.path.abspath(__file__)))
sys.path.insert(0, VERIF)
from sa.manifest_table import CHECKS, NOT_APPLICABLE, NOTES

def main():
    checks = []
    for pid, (technique, text, note, ref) in sorted(CHECKS.items()):
        checks.append({
            "property_id": pid,
            "quick_cmd": "/venv/bin/python -m sa.check %s --tier quick" % pid,
            "thorough_cmd": "/venv/bin/python -m sa.check %s --tier thorough" % pid,
            "evidence_file": "/verif/evidence/%s.json" % pid,
            "replay_cmd_template": "/venv/bin/python -m sa.check --replay {path}",
            "engine": "sa",
            "level_claimed": {"category": "other", "text": text, "design_ref": ref},
            "level_note": note,
            "technique": technique,
        })
    man = {
        "version": 1,
        "setup_cmd": "/venv/bin/python -m compileall -q sa",
        "hooks": {"guard": "DISCOPY_VERIF", "enable": "no source hooks are needed: the checks parse /repo/discopy and never import or run it",
                  "baseline_off_cmd": "cd /repo && /venv/bin/python -m pytest -ra -q -p no:cacheprovider --timeout=900 --continue-on-collection-errors",
                  "source_commits": [], "add_only": True},
        "engines": [{"name": "sa", "path": "/verif/sa", "serves_properties": sorted(CHECKS),
                     "kind_free_text": "repository-specific static analysis over the Python syntax tree: resolved class model, "
                                       "abstract evaluation on generic instances (words / linear forms / axis layouts), constructor provenance, "
                                       "dispatch analysis, constant tables, CFG dominance"}],
        "checks": checks,
        "notes": NOTES,
        "not_applicable": [{"property_id": k, "reason": v} for k, v in sorted(NOT_APPLICABLE.items())],
    }
    json.dump(man, open(os.path.join(VERIF, "MANIFEST.json"), "w"), indent=1)
    try:
        import jsonschema
        jsonschema.validate(man, json.load(open("/root/.vp/MANIFEST.schema.json")))
        print("MANIFEST.json valid: %d checks, %d not_applicable" % (len(checks), len(man["not_applicable"])))
    except ImportError:
        print("MANIFEST.json written (jsonschema not importable here)")
    ids = set(CHECKS) | set(NOT_APPLICABLE)
    want = {"C%02d" % i for i in range(1, 21)}
    assert ids == want and not (set(CHECKS) & set(NOT_APPLICABLE)), (want - ids, set(CHECKS) & set(NOT_APPLICABLE))

main()
