"""Prototype B': block-wise evaluation of the moveaxis index maps in Tensor.tensor / dagger / swap."""
import ast, sys
from .lin import Lin, Facts
from .words import Seq, Seg, Atom, Unlocatable
from .beval import Evaluator, Obj, Closure, Unsupported, Undecided
from .c10 import find_method


def block_map(ev, comp, env, blocks, var_name=None):
    """comp: ListComp `[<expr> for i in <source>]`; blocks: list of (label, start Lin, width Lin) covering the source range.
    Returns [(label, new_start Lin)] : each block is translated rigidly (i -> i + shift) or raises."""
    g, = comp.generators
    out = []
    for label, start, width in blocks:
        t = Lin.var("t")
        saved = ev.facts
        ev.facts = ev.facts.extend(t, width - t - 1)          # block non-empty, 0 <= t <= width-1
        try:
            e2 = dict(env)
            ev.bind(g.target, start + t, e2)
            img = Lin.of(ev.ev(comp.elt, e2))
        finally:
            ev.facts = saved
        shift = img - (start + t)
        if "t" in shift.vars():
            raise Unsupported("block %s is not translated rigidly: i -> %r" % (label, img))
        out.append((label, start + shift, width))
    return out


def layout_after(blocks_moved, facts):
    """sort moved blocks by their new start; check they tile [0, total) without overlap."""
    order, pos, remaining = [], Lin.of(0), list(blocks_moved)
    while remaining:
        nxt = [b for b in remaining if facts.eq(b[1], pos)]
        empties = [b for b in remaining if facts.zero(b[2])]
        if not nxt:
            if empties:
                remaining = [b for b in remaining if b not in empties]; continue
            raise Unsupported("blocks do not tile: next position %r, starts %r" % (pos, [(b[0], b[1]) for b in remaining]))
        b = nxt[0]
        order.append(b[0]); pos = pos + b[2]; remaining.remove(b)
    return order


def check(path="/repo/discopy/tensor.py", out=print):
    fails = []
    A, B, C, D = (Atom(x) for x in ["self.dom", "self.cod", "other.dom", "other.cod"])
    a, b, c, d = (x.length for x in (A, B, C, D))
    me = Obj("Tensor", dom=Seq.atom(A), cod=Seq.atom(B), isa=("Tensor",))
    other = Obj("Tensor", dom=Seq.atom(C), cod=Seq.atom(D), isa=("Tensor",))
    # ---- tensor: tensordot(.,.,0) layout [A B C D]; all axes moved by `target`; required layout [A C B D]
    fn = find_method(path, "Tensor", "tensor")
    comp = next(n for n in ast.walk(fn) if isinstance(n, ast.ListComp))
    ev = Evaluator(Facts(), "Tensor.tensor")
    env = {"self": me, "other": other, "source": None}
    try:
        moved = block_map(ev, comp, env, [("A", Lin.of(0), a), ("B", a, b), ("C", a + b, c), ("D", a + b + c, d)])
        order = layout_after(moved, ev.facts)
        if order != ["A", "C", "B", "D"]:
            fails.append("R08.2 Tensor.tensor re-orders axes [dom1 cod1 dom2 cod2] to %r, spec [dom1 dom2 cod1 cod2]" % order)
        else:
            out("  R08.2 ok: [A B C D] -> %r" % order)
    except (Unsupported, Undecided, Unlocatable) as e:
        fails.append("R08.2 Tensor.tensor: %s: %s" % (type(e).__name__, e))
    # ---- dagger: layout [A B] -> [B A]
    fn = find_method(path, "Tensor", "dagger")
    comp = next(n for n in ast.walk(fn) if isinstance(n, ast.ListComp))
    ev = Evaluator(Facts(), "Tensor.dagger")
    try:
        moved = block_map(ev, comp, {"self": me}, [("A", Lin.of(0), a), ("B", a, b)])
        order = layout_after(moved, ev.facts)
        conj = any(isinstance(n, ast.Attribute) and n.attr == "conjugate" for n in ast.walk(fn))
        if order != ["B", "A"]:
            fails.append("R08.3 Tensor.dagger re-orders [dom cod] to %r, spec [cod dom]" % order)
        elif not conj:
            fails.append("R08.3 Tensor.dagger does not conjugate")
        else:
            out("  R08.3 ok: [A B] -> %r, conjugated" % order)
    except (Unsupported, Undecided, Unlocatable) as e:
        fails.append("R08.3 Tensor.dagger: %s: %s" % (type(e).__name__, e))
    # ---- swap: id(left@right) has layout [L R L' R']; second half moved; required [L R R' L']
    fn = find_method(path, "Tensor", "swap")
    comp = next(n for n in ast.walk(fn) if isinstance(n, ast.ListComp))
    Lt, Rt = Atom("left"), Atom("right")
    l, r = Lt.length, Rt.length
    ev = Evaluator(Facts(), "Tensor.swap")
    try:
        moved = block_map(ev, comp, {"left": Seq.atom(Lt), "right": Seq.atom(Rt)}, [("L'", l + r, l), ("R'", l + r + l, r)])
        order = layout_after([("L", Lin.of(0), l), ("R", l, r)] + moved, ev.facts)
        # source range must be exactly the second half
        src = next(n for n in ast.walk(fn) if isinstance(n, ast.Assign) and n.targets[0].id == "source")
        rng = ev.ev(src.value, {"left": Seq.atom(Lt), "right": Seq.atom(Rt)})
        seg = rng.parts[0]
        if not (ev.facts.eq(seg.atom.elem(Lin.of(0)), l + r) and ev.facts.eq(seg.atom.length, l + r)):
            fails.append("R08.4 Tensor.swap moves axes %r, spec the second half [|l|+|r|, 2(|l|+|r|))" % (rng,))
        if order != ["L", "R", "R'", "L'"]:
            fails.append("R08.4 Tensor.swap gives layout %r, spec [L R R' L']" % order)
        else:
            out("  R08.4 ok: [L R L' R'] -> %r" % order)
    except (Unsupported, Undecided, Unlocatable) as e:
        fails.append("R08.4 Tensor.swap: %s: %s" % (type(e).__name__, e))
    for f in fails:
        out("VIOLATION-CANDIDATE " + f)
    return 1 if fails else 0


if __name__ == "__main__":
    sys.exit(check())
