"""Blind-spot survey by automatic mutation:  mutsurvey.py [-j N] [--only file-substring] [--limit N] [--out results.jsonl]

Not a check and not registered in MANIFEST.json: a development tool that looks for changes no check reacts to.  Every syntactic site of
/repo/discopy gets the small edits below (one at a time, on a scratch copy under a temporary directory that is removed afterwards); the
pinned test-suite runs on the copy, and for every edit the suite accepts, all twenty checks run as well.  The survivors nobody reports are
written to the result file for reading: each is either irrelevant to the properties, equivalent, or a blind spot to close with a new rule.

  cmp      comparison operator replaced by its neighbour (== / !=, < / <=, > / >=, is / is not, in / not in)
  bool     and / or exchanged
  neg      the test of an if / while / conditional expression / comprehension filter negated
  arith    + / -, * / //, << / >>, @ / >> exchanged
  const    integer constant n replaced by n+1 (and 1 by 0), True / False exchanged
  slice    [a:] / [:a] exchanged; lower or upper bound shifted by one
  swapargs the first two positional arguments of a call exchanged
  dropkw   one keyword argument of a call removed
  delstmt  an expression statement, an augmented assignment or an `if ...: raise` guard removed
  attr     dom / cod, l / r, left / right exchanged (attribute or name)
  ifexp    the branches of a conditional expression exchanged
"""
import ast, copy, json, os, shutil, subprocess, sys, tempfile
from concurrent.futures import ThreadPoolExecutor
VERIF = os.path.dirname(os.path.dirname(os.path.abspath(__file__)))
REPO = "/repo"
CMP = {ast.Eq: ast.NotEq, ast.NotEq: ast.Eq, ast.Lt: ast.LtE, ast.LtE: ast.Lt, ast.Gt: ast.GtE, ast.GtE: ast.Gt, ast.Is: ast.IsNot, ast.IsNot: ast.Is,
       ast.In: ast.NotIn, ast.NotIn: ast.In}
ARITH = {ast.Add: ast.Sub, ast.Sub: ast.Add, ast.Mult: ast.FloorDiv, ast.FloorDiv: ast.Mult, ast.LShift: ast.RShift, ast.RShift: ast.LShift, ast.MatMult: ast.RShift}
SWAP = {"dom": "cod", "cod": "dom", "l": "r", "r": "l", "left": "right", "right": "left"}


def sites2(tree):
    """second family of edits: the wrong variable (a name read replaced by another local / parameter of the same function), a dagger / reversal dropped"""
    out = []
    walk = list(ast.walk(tree))
    pos = {id(n): i for i, n in enumerate(walk)}
    for fn in walk:
        if not isinstance(fn, (ast.FunctionDef, ast.Lambda)):
            continue
        body = fn.body if isinstance(fn.body, list) else [fn.body]
        own = []
        todo = list(body)
        while todo:
            n = todo.pop()
            if isinstance(n, (ast.FunctionDef, ast.Lambda, ast.ClassDef)) :
                continue
            own.append(n)
            todo.extend(ast.iter_child_nodes(n))
        local = sorted({a.arg for a in fn.args.args + fn.args.kwonlyargs if a.arg not in ("self", "cls")} | {n.id for n in own if isinstance(n, ast.Name) and isinstance(n.ctx, ast.Store)})
        local = [x for x in local if x != "_"]
        for n in own:
            if isinstance(n, ast.Name) and isinstance(n.ctx, ast.Load) and n.id in local and len(local) > 1:
                k = local.index(n.id)
                out.append((pos[id(n)], "name:" + local[(k + 1) % len(local)]))
            elif isinstance(n, ast.Call) and isinstance(n.func, ast.Attribute) and n.func.attr in ("dagger", "conjugate", "transpose", "downgrade") and not n.args:
                out.append((pos[id(n)], "dropcall"))
            elif isinstance(n, ast.Subscript) and isinstance(n.slice, ast.Slice) and n.slice.lower is None and n.slice.upper is None and n.slice.step is not None:
                out.append((pos[id(n)], "dropcall"))
    return out


def sites(tree):
    """(index in ast.walk order, variant) for every applicable edit"""
    if os.environ.get("MUTSURVEY_FAMILY") == "2":
        return sites2(tree)
    out = []
    doc = set()
    for n in ast.walk(tree):
        if isinstance(n, (ast.FunctionDef, ast.ClassDef, ast.Module)) and n.body and isinstance(n.body[0], ast.Expr) and isinstance(n.body[0].value, ast.Constant) and isinstance(n.body[0].value.value, str):
            doc.add(id(n.body[0]))
            doc.add(id(n.body[0].value))
    for i, n in enumerate(ast.walk(tree)):
        if id(n) in doc:
            continue
        if isinstance(n, ast.Compare):
            for k, op in enumerate(n.ops):
                if type(op) in CMP:
                    out.append((i, "cmp%d" % k))
        elif isinstance(n, ast.BoolOp):
            out.append((i, "bool"))
        elif isinstance(n, ast.BinOp) and type(n.op) in ARITH:
            out.append((i, "arith"))
        elif isinstance(n, ast.Constant) and type(n.value) in (int, bool):
            out.append((i, "const"))
        elif isinstance(n, ast.Subscript) and isinstance(n.slice, ast.Slice) and n.slice.step is None:
            if (n.slice.lower is None) != (n.slice.upper is None):
                out.append((i, "slice-flip"))
            if n.slice.lower is not None:
                out.append((i, "slice-lo"))
            if n.slice.upper is not None:
                out.append((i, "slice-up"))
        elif isinstance(n, ast.Call):
            if len(n.args) >= 2 and not any(isinstance(a, ast.Starred) for a in n.args[:2]):
                out.append((i, "swapargs"))
            for k, kw in enumerate(n.keywords):
                if kw.arg is not None:
                    out.append((i, "dropkw%d" % k))
        elif isinstance(n, ast.IfExp):
            out.append((i, "ifexp"))
            out.append((i, "neg"))
        elif isinstance(n, (ast.If, ast.While)):
            out.append((i, "neg"))
        elif isinstance(n, ast.comprehension):
            for k in range(len(n.ifs)):
                out.append((i, "negif%d" % k))
        elif isinstance(n, ast.Attribute) and n.attr in SWAP:
            out.append((i, "attr"))
        elif isinstance(n, ast.Name) and n.id in SWAP and isinstance(n.ctx, ast.Load):
            out.append((i, "attr"))
        for field in ("body", "orelse", "finalbody"):
            body = getattr(n, field, None)
            if isinstance(body, list) and len(body) > 1:
                for k, st in enumerate(body):
                    if id(st) in doc:
                        continue
                    if (isinstance(st, ast.Expr) and isinstance(st.value, ast.Call)) or isinstance(st, ast.AugAssign) \
                            or (isinstance(st, ast.If) and not st.orelse and isinstance(st.body[-1], ast.Raise)):
                        out.append((i, "delstmt-%s-%d" % (field, k)))
    return out


def apply(tree, idx, variant):
    n = list(ast.walk(tree))[idx]
    if variant.startswith("cmp"):
        k = int(variant[3:])
        n.ops[k] = CMP[type(n.ops[k])]()
    elif variant == "bool":
        n.op = ast.Or() if isinstance(n.op, ast.And) else ast.And()
    elif variant == "arith":
        n.op = ARITH[type(n.op)]()
    elif variant == "const":
        n.value = (not n.value) if isinstance(n.value, bool) else (0 if n.value == 1 else n.value + 1)
    elif variant == "slice-flip":
        n.slice.lower, n.slice.upper = n.slice.upper, n.slice.lower
    elif variant == "slice-lo":
        n.slice.lower = ast.BinOp(left=n.slice.lower, op=ast.Add(), right=ast.Constant(1))
    elif variant == "slice-up":
        n.slice.upper = ast.BinOp(left=n.slice.upper, op=ast.Sub(), right=ast.Constant(1))
    elif variant == "swapargs":
        n.args[0], n.args[1] = n.args[1], n.args[0]
    elif variant.startswith("dropkw"):
        del n.keywords[int(variant[6:])]
    elif variant == "ifexp":
        n.body, n.orelse = n.orelse, n.body
    elif variant == "neg":
        n.test = ast.UnaryOp(op=ast.Not(), operand=n.test)
    elif variant.startswith("negif"):
        k = int(variant[5:])
        n.ifs[k] = ast.UnaryOp(op=ast.Not(), operand=n.ifs[k])
    elif variant == "attr":
        if isinstance(n, ast.Attribute):
            n.attr = SWAP[n.attr]
        else:
            n.id = SWAP[n.id]
    elif variant.startswith("name:"):
        n.id = variant[5:]
    elif variant == "dropcall":
        repl = n.func.value if isinstance(n, ast.Call) else n.value
        for p_ in ast.walk(tree):
            for f_, v_ in ast.iter_fields(p_):
                if v_ is n:
                    setattr(p_, f_, repl)
                elif isinstance(v_, list):
                    for k_, x_ in enumerate(v_):
                        if x_ is n:
                            v_[k_] = repl
    elif variant.startswith("delstmt-"):
        _, field, k = variant.split("-")
        del getattr(n, field)[int(k)]
    else:
        raise ValueError(variant)
    return n


def context(tree, idx):
    """qualified name of the enclosing function and the smallest enclosing statement"""
    parents = {}
    for p in ast.walk(tree):
        for c in ast.iter_child_nodes(p):
            parents[id(c)] = p
    n = list(ast.walk(tree))[idx]
    names, stmt, x = [], None, n
    while x is not None:
        if stmt is None and isinstance(x, ast.stmt):
            stmt = x
        if isinstance(x, (ast.FunctionDef, ast.ClassDef)):
            names.append(x.name)
        x = parents.get(id(x))
    return ".".join(reversed(names)) or "<module>", stmt


GUESS = {"biclosed.py": ["test_biclosed.py"], "cartesian.py": ["test_cartesian.py"], "cat.py": ["test_cat.py", "test_monoidal.py"], "monoidal.py": ["test_monoidal.py", "test_rigid.py"],
         "rigid.py": ["test_rigid.py", "test_grammar.py"], "rewriting.py": ["test_monoidal.py", "test_rigid.py"], "tensor.py": ["test_tensor.py"], "drawing.py": ["test_drawing.py"],
         "circuit.py": ["test_quantum.py"], "gates.py": ["test_quantum.py"], "tk.py": ["test_quantum.py"], "cqmap.py": ["test_cqmap.py", "test_quantum.py"], "zx.py": ["test_zx.py"],
         "qdrawing": ["test_drawing.py"], "ccg.py": ["test_grammar.py"], "cfg.py": ["test_grammar.py"], "pregroup.py": ["test_grammar.py"]}
DESELECT = [x for t in json.load(open("/root/.vp/BASELINE.json"))["always_fail"] for x in ("--deselect", "test/%s.py::%s" % tuple(t.split(".", 1)[1].split("::")))]


ANCHORS = {p["id"]: set(p["anchors"]["files"]) for p in map(json.loads, open(os.path.join(VERIF, "properties.jsonl")))}
ANCHORS["C18"] |= {"discopy/monoidal.py"}
ANCHORS["C20"] |= {"discopy/quantum/drawing.py"}


def run(cmd, **kw):
    return subprocess.run(cmd, capture_output=True, text=True, **kw)


def props():
    return sorted(f[:-3].upper() for f in os.listdir(os.path.join(VERIF, "sa", "rules")) if len(f) == 6 and f.startswith("c") and f[1:3].isdigit())


def one(job):
    rel, idx, variant, src = job
    tree = ast.parse(src)
    qual, stmt = context(tree, idx)
    before = ast.unparse(stmt)[:300] if stmt is not None else ""
    line = getattr(stmt, "lineno", 0)
    apply(tree, idx, variant)
    ast.fix_missing_locations(tree)
    after = ast.unparse(stmt)[:300] if stmt is not None and not variant.startswith("delstmt") else "<statement %s removed>" % variant
    rec = dict(file=rel, function=qual, line=line, variant=variant, before=before, after=after)
    if before == after:
        rec["suite"] = "same-text"
        return rec
    tmp = tempfile.mkdtemp(prefix="msv_")
    try:
        shutil.copytree(os.path.join(REPO, "discopy"), os.path.join(tmp, "discopy"), ignore=shutil.ignore_patterns("__pycache__"))
        shutil.copytree(os.path.join(REPO, "test"), os.path.join(tmp, "test"), ignore=shutil.ignore_patterns("__pycache__"))
        for f in ("setup.cfg", "pytest.ini", "conftest.py", "tox.ini"):
            if os.path.exists(os.path.join(REPO, f)):
                shutil.copy(os.path.join(REPO, f), tmp)
        try:
            new = ast.unparse(tree) + "\n"
            compile(new, rel, "exec")
        except Exception as e:
            rec["suite"] = "does-not-compile"
            return rec
        open(os.path.join(tmp, rel), "w").write(new)
        env = dict(os.environ, PYTHONPATH=tmp, MPLBACKEND="Agg", OMP_NUM_THREADS="1", OPENBLAS_NUM_THREADS="1", SUITE_TIMEOUT="60")
        first = GUESS.get(os.path.basename(rel) if "quantum" not in rel or "drawing" not in rel else "qdrawing", [])
        if first:                                   # fail fast on the module's own tests before the whole suite decides
            q = run(["/venv/bin/python", "-m", "pytest", "-x", "-q", "-p", "no:cacheprovider", "--timeout=60"] + DESELECT + ["test/%s" % f for f in first], cwd=tmp, env=env, timeout=1200)
            bad = [l for l in q.stdout.splitlines() if l.startswith("FAILED") or l.startswith("ERROR")]
            if bad:
                rec["suite"] = "fail"
                rec["failing"] = bad[0][:120]
                return rec
        s = run([sys.executable, os.path.join(VERIF, "tools", "suite.py"), tmp], timeout=1200, env=env)
        rec["suite"] = "pass" if s.returncode == 0 else "fail"
        if s.returncode == 0:
            res = {}
            for p in props():
                if rel not in ANCHORS[p]:                # a check whose anchor files do not contain the edited module has nothing to say about it
                    continue
                r = run([sys.executable, "-m", "sa.check", p, "--repo", tmp, "--out", os.path.join(tmp, "_o")], cwd=VERIF, timeout=900)
                res[p] = {0: "silent", 1: "violation", 2: "analysis-error"}.get(r.returncode, str(r.returncode))
            rec["checks"] = {p: v for p, v in res.items() if v != "silent"}
        return rec
    except subprocess.TimeoutExpired:
        rec["suite"] = "timeout"
        return rec
    finally:
        shutil.rmtree(tmp, ignore_errors=True)


def recheck(job):
    """one surviving edit again, against every check as it is now"""
    rec = job
    i, variant = rec["key"].split("/", 1)
    src = open(os.path.join(REPO, rec["file"])).read()
    tree = ast.parse(src)
    apply(tree, int(i), variant)
    ast.fix_missing_locations(tree)
    tmp = tempfile.mkdtemp(prefix="msv_")
    try:
        shutil.copytree(os.path.join(REPO, "discopy"), os.path.join(tmp, "discopy"), ignore=shutil.ignore_patterns("__pycache__"))
        open(os.path.join(tmp, rec["file"]), "w").write(ast.unparse(tree) + "\n")
        res = {}
        for p in props():
            r = run([sys.executable, "-m", "sa.check", p, "--repo", tmp, "--out", os.path.join(tmp, "_o")], cwd=VERIF, timeout=900)
            res[p] = {0: "silent", 1: "violation", 2: "analysis-error"}.get(r.returncode, str(r.returncode))
        out = dict(rec)
        out["checks"] = {p: v for p, v in res.items() if v != "silent"}
        return out
    finally:
        shutil.rmtree(tmp, ignore_errors=True)


def main():
    args = sys.argv[1:]
    if args and args[0] == "--recheck":
        src, out = args[1], args[2]
        jobs = int(args[3]) if len(args) > 3 else 14
        rows = [json.loads(l) for l in open(src)]
        todo = [r for r in rows if r["suite"] == "pass" and "violation" not in r.get("checks", {}).values()]
        print("%d surviving edits without a violation to check again" % len(todo), flush=True)
        with open(out, "w") as fh, ThreadPoolExecutor(jobs) as ex:
            for k, rec in enumerate(ex.map(recheck, todo)):
                fh.write(json.dumps(rec) + "\n")
                fh.flush()
                if (k + 1) % 100 == 0:
                    print(k + 1, flush=True)
        return
    jobs, only, skip, limit, out = 16, None, None, None, os.path.join(tempfile.gettempdir(), "mutsurvey.jsonl")
    while args:
        a = args.pop(0)
        if a == "-j":
            jobs = int(args.pop(0))
        elif a == "--only":
            only = args.pop(0)
        elif a == "--skip":
            skip = args.pop(0)
        elif a == "--limit":
            limit = int(args.pop(0))
        elif a == "--out":
            out = args.pop(0)
    work = []
    for root, _, files in os.walk(os.path.join(REPO, "discopy")):
        for f in sorted(files):
            if not f.endswith(".py") or f in ("messages.py", "__init__.py"):
                continue
            rel = os.path.relpath(os.path.join(root, f), REPO)
            if (only and only not in rel) or (skip and skip in rel):
                continue
            src = open(os.path.join(root, f)).read()
            for idx, variant in sites(ast.parse(src)):
                work.append((rel, idx, variant, src))
    if limit:
        import random
        random.Random(0).shuffle(work)
        work = work[:limit]
    done = set()
    if os.path.exists(out):
        for l in open(out):
            r = json.loads(l)
            done.add((r["file"], r["key"]))
    work = [w for w in work if (w[0], "%d/%s" % (w[1], w[2])) not in done]
    print("%d edits to try" % len(work), flush=True)
    n = 0
    with open(out, "a") as fh, ThreadPoolExecutor(jobs) as ex:
        for w, rec in zip(work, ex.map(one, work)):
            rec["key"] = "%d/%s" % (w[1], w[2])
            fh.write(json.dumps(rec) + "\n")
            fh.flush()
            n += 1
            if n % 100 == 0:
                print(n, flush=True)


if __name__ == "__main__":
    main()
