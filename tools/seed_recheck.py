"""Re-run every check against every stored seeded change:  seed_recheck.py [-j N] [ids ...]

For each /verif/seeded/<id>/patch.diff: apply it to a scratch copy of /repo (outside /repo and /verif), run all checks on the copy and
rewrite `checks_on_changed_tree`, `caught_by` and `patch_applies` in meta.json.  Prints the table used in DESIGN.md.
A patch that no longer applies (the code it touched was repaired since) is reported as such and keeps its old verdicts."""
import json, os, shutil, subprocess, sys, tempfile, glob
from concurrent.futures import ThreadPoolExecutor
VERIF = os.path.dirname(os.path.dirname(os.path.abspath(__file__)))
allprops = sorted(f[:-3].upper() for f in os.listdir(os.path.join(VERIF, "sa", "rules")) if len(f) == 6 and f.startswith("c") and f.endswith(".py") and f[1:3].isdigit())
args = sys.argv[1:]
jobs = 8
if "-j" in args:
    jobs = int(args[args.index("-j") + 1])
    del args[args.index("-j"):args.index("-j") + 2]


def run(cmd, **kw):
    return subprocess.run(cmd, capture_output=True, text=True, **kw)


def one(d):
    sid = os.path.basename(d)
    meta = json.load(open(os.path.join(d, "meta.json")))
    tmp = tempfile.mkdtemp(prefix="recheck_")
    try:
        shutil.copytree("/repo", tmp, dirs_exist_ok=True, ignore=shutil.ignore_patterns(".git", "__pycache__", "docs", "*.egg-info", "test"))
        ap = run(["patch", "-p1", "--no-backup-if-mismatch", "-i", os.path.join(d, "patch.diff")], cwd=tmp)
        if ap.returncode:
            meta["patch_applies"] = False
            json.dump(meta, open(os.path.join(d, "meta.json"), "w"), indent=1)
            return sid, None, None
        res, detail = {}, {}
        for p in allprops:
            r = run([sys.executable, "-m", "sa.check", p, "--repo", tmp, "--out", os.path.join(tmp, "_o")], cwd=VERIF, timeout=900)
            res[p] = {0: "silent", 1: "violation", 2: "analysis-error"}.get(r.returncode, str(r.returncode))
            if r.returncode == 1:
                detail[p] = [l.strip()[:160] for l in r.stdout.splitlines() if l.startswith("  R")][:3]
        meta.update(patch_applies=True, checks_on_changed_tree=res, caught_by=[p for p, v in res.items() if v == "violation"], reports=detail)
        json.dump(meta, open(os.path.join(d, "meta.json"), "w"), indent=1)
        return sid, res, meta["property"]
    finally:
        shutil.rmtree(tmp, ignore_errors=True)


dirs = sorted(d for d in glob.glob(os.path.join(VERIF, "seeded", "*")) if os.path.isdir(d) and (not args or os.path.basename(d) in args))
with ThreadPoolExecutor(jobs) as ex:
    rows = list(ex.map(one, dirs))
own = other = missed = 0
for sid, res, prop in rows:
    if res is None:
        print("%-8s patch no longer applies" % sid)
        continue
    caught = [p for p, v in res.items() if v == "violation"]
    errs = [p for p, v in res.items() if v == "analysis-error"]
    kind = "own" if prop in caught else "other" if caught else "analysis-error" if errs else "MISSED"
    own += kind == "own"
    other += kind == "other"
    missed += kind in ("MISSED", "analysis-error")
    print("%-8s %-14s caught by %-22s errors %s" % (sid, kind, ",".join(caught) or "-", ",".join(errs) or "-"))
print("%d seeds: %d caught by the property's own check, %d only by another property's check, %d not caught" % (len(rows), own, other, missed))
