"""Prototype R15.3: the shift/factor constants of Rotation.grad agree with the closed-form arrays (sympy, no discopy import)."""
import ast, sys
import sympy as sp
from .model import Model


class SymFold(ast.NodeVisitor):
    def __init__(self, env): self.env = env
    def visit_Constant(self, n): return sp.nsimplify(n.value) if isinstance(n.value, (int, float)) else (sp.I * sp.nsimplify(n.value.imag) if isinstance(n.value, complex) else n.value)
    def visit_Name(self, n): return self.env[n.id]
    def visit_Attribute(self, n):
        d = ast.unparse(n)
        if d in self.env: return self.env[d]
        return getattr(self.visit(n.value), n.attr)
    def visit_List(self, n): return [self.visit(e) for e in n.elts]
    def visit_Tuple(self, n): return tuple(self.visit(e) for e in n.elts)
    def visit_UnaryOp(self, n): return -self.visit(n.operand)
    def visit_BinOp(self, n):
        l, r = self.visit(n.left), self.visit(n.right)
        return {ast.Add: lambda: l + r, ast.Sub: lambda: l - r, ast.Mult: lambda: l * r, ast.Div: lambda: l / r, ast.Pow: lambda: l ** r}[type(n.op)]()
    def visit_Call(self, n):
        f = self.visit(n.func)
        return f(*[self.visit(a) for a in n.args])
    def generic_visit(self, n): raise NotImplementedError(ast.dump(n)[:80])


class NP:
    pi = sp.pi
    @staticmethod
    def array(x): return sp.Matrix(x)


class ArrayWrap:
    def __init__(self, m): self.m = m
    def reshape(self, *shape): return self.m


def closed_form(M, cls, phi):
    r = M.lookup(cls, "array")
    fn = r[1]
    env = {"self.modules": sp, "Tensor.np": type("N", (), {"array": staticmethod(lambda x: ArrayWrap(sp.Matrix(x)) if not isinstance(x[0], list) else sp.Matrix(x)), "pi": sp.pi}),
           "self.phase": phi}
    for st in fn.body:
        if isinstance(st, ast.Assign):
            val = SymFold(env).visit(st.value); t = st.targets[0]
            if isinstance(t, ast.Tuple):
                for a, v in zip(t.elts, val): env[a.id] = v
            else: env[t.id] = val
        elif isinstance(st, ast.Return):
            A = SymFold(env).visit(st.value)
            if isinstance(A, sp.Matrix) and A.shape[1] == 1:
                n = int(sp.sqrt(A.shape[0])); A = A.reshape(n, n)
            return A.T      # [in, out] -> matrix[out, in]


def check(out=print):
    M = Model()
    phi = sp.Symbol("phi", real=True)
    rot = M.cls("discopy.quantum.gates.Rotation")
    gfn = M.func("discopy.quantum.gates.Rotation.grad")
    # constants of the rule, read from the AST
    K_pure = S_pure = K_mixed = None
    shifts = []
    env = {"Tensor.np": NP, "self.phase": phi, "gradient": sp.Integer(1)}
    for n in ast.walk(gfn):
        if isinstance(n, ast.Call) and ast.unparse(n.func) == "type(self)":
            shifts.append(sp.simplify(SymFold(env).visit(n.args[0]) - phi))
    for n in ast.walk(gfn):
        if isinstance(n, ast.Call) and ast.unparse(n.func) == "scalar" and "gradient" in ast.unparse(n):
            k = SymFold(env).visit(n.args[0])
            mixed = any(kw.arg == "is_mixed" for kw in n.keywords)
            if mixed: K_mixed = k
            else: K_pure = k
    fails = []
    if sorted(shifts, key=float) != [sp.Rational(-1, 4), sp.Rational(1, 4), sp.Rational(1, 2)]:
        fails.append("R15.3 Rotation.grad shifts are %r, expected +1/4, -1/4 (mixed) and +1/2 (pure)" % shifts)
    n_ok = 0
    for cname in ("Rx", "Ry", "Rz"):
        U = closed_form(M, M.cls("discopy.quantum.gates." + cname), phi)
        dU = U.diff(phi)
        pure = sp.simplify(dU - K_pure * U.subs(phi, phi + sp.Rational(1, 2)))
        if pure != sp.zeros(*U.shape):
            fails.append("R15.3 %s: d/dφ array != %s · array(φ + 1/2)" % (cname, K_pure))
        D = lambda V: sp.kronecker_product(V.conjugate(), V)
        lhs = D(U).diff(phi)
        rhs = K_mixed * (D(U.subs(phi, phi + sp.Rational(1, 4))) - D(U.subs(phi, phi - sp.Rational(1, 4))))
        if sp.simplify(lhs - rhs) != sp.zeros(*lhs.shape):
            fails.append("R15.3 %s: d/dφ (conj ⊗ array) != %s · [doubled(φ + 1/4) − doubled(φ − 1/4)]" % (cname, K_mixed))
        n_ok += 1
    for f in fails:
        out("VIOLATION-CANDIDATE " + f)
    if not fails:
        out("  R15.3 ok: pure rule K=%s shift=+1/2 and mixed rule K=%s shifts=±1/4 agree with the closed forms of Rx, Ry, Rz" % (K_pure, K_mixed))
    return 1 if fails else 0


if __name__ == "__main__":
    sys.exit(check())
