import sys; sys.path.insert(0,'/tmp/spike')
import ast
from sa import c13
orig = c13.run_block
def traced(ev, body, env):
    r = orig(ev, body, env)
    for st in body:
        if isinstance(st, ast.For) and 'box.dom' in ast.unparse(st.iter):
            print("  after FOR", ast.unparse(st.iter), "bits:", env.get('bits'), "len", getattr(env.get('bits'), 'length', None), "| qubits len", getattr(env.get('qubits'), 'length', None))
    return r
c13.run_block = traced
c13.check()
