"""Prototype R10.2 (swap: three cases, typing on atoms) and R10.3 (permutation: parallel rearrangement T5)."""
import ast, sys
from .lin import Lin, Facts
from .words import Seq, Seg, Item, Atom, MapSeg, Unlocatable
from .beval import Evaluator, Obj, Closure, Unsupported, Undecided
from .c04 import Ev, TD, W


def find_method(path, cls, name):
    mod = ast.parse(open(path).read())
    c = next(n for n in mod.body if isinstance(n, ast.ClassDef) and n.name == cls)
    return next(n for n in c.body if isinstance(n, ast.FunctionDef) and n.name == name)


class Ev10(Ev):
    def __init__(self, facts, where):
        super().__init__(facts, where)
        self.index_facts = []
        self.builtins["enumerate"] = self._enumerate
        self.builtins["set"] = lambda x: ("set", x)

    def _enumerate(self, s):
        if not (isinstance(s, Seq) and len(s.parts) == 1 and isinstance(s.parts[0], Seg) and s.parts[0].is_full()):
            raise Unsupported("enumerate of %r" % (s,))
        a = s.parts[0].atom
        return Seq.atom(Atom("enumerate(%s)" % a.name, a.length, elem=lambda k: (k, Obj("Wire", of=a.name, at=k))))

    def getattr(self, v, attr, n=None):
        if isinstance(v, Seq) and attr == "index":
            def index(x):
                j = Lin.var("j")
                self.facts = self.facts.extend(j, v.length - j - 1)
                self.index_facts.append((v, j, x))
                return j
            return Closure(index)
        return super().getattr(v, attr, n)


def swap_contract(l, r):
    return TD(l + r, r + l)


def check_swap(path="/repo/discopy/monoidal.py", out=print):
    fn = find_method(path, "Diagram", "swap")
    LEFT, RIGHT = Atom("left"), Atom("right")
    fails = []
    cases = {"|left|=0": Facts().with_eq(LEFT.length, 0), "|left|=1": Facts().with_eq(LEFT.length, 1), "|left|>=2": Facts([LEFT.length - 2])}
    for cname, facts in cases.items():
        ev = Ev10(facts, "monoidal.Diagram.swap")
        built = {}

        def scanning_ctor(dom, cod, boxes, offsets, layers=None, built=built):
            built.update(dom=dom, cod=cod, boxes=boxes, offsets=offsets, layers=layers)
            return TD(dom, cod)
        factory = Obj("Factory", id=Closure(lambda t: TD(t, t)), swap=Closure(swap_contract), call=scanning_ctor)
        env = {"left": Seq.atom(LEFT), "right": Seq.atom(RIGHT), "ar_factory": factory, "swap_factory": Closure(swap_contract)}
        try:
            r = ev.run(fn.body, env)
        except (Unlocatable, Unsupported, Undecided) as e:
            fails.append("R10.2 %s: %s: %s" % (cname, type(e).__name__, e)); continue
        if not r or r[0] != "return":
            fails.append("R10.2 %s: no value returned (%r)" % (cname, r)); continue
        res = r[1]
        if res.f["dom"] != Seq.atom(LEFT) + Seq.atom(RIGHT) and not (cname == "|left|=0" and res.f["dom"] == Seq.atom(RIGHT)):
            fails.append("R10.2 %s: dom is %r, spec left @ right" % (cname, res.f["dom"]))
        if res.f["cod"] != Seq.atom(RIGHT) + Seq.atom(LEFT) and not (cname == "|left|=0" and res.f["cod"] == Seq.atom(RIGHT)):
            fails.append("R10.2 %s: cod is %r, spec right @ left" % (cname, res.f["cod"]))
        fails += ["R10.2 %s: does not compose: %r" % (cname, o) for o in ev.obligations if not o.ok]
        if built:   # base case goes through the scanning constructor: check the scan symbolically (chain of rows)
            if built["layers"] is not None:
                fails.append("R10.2 %s: base case bypasses the scan" % cname)
            n, i = RIGHT.length, Lin.var("i")
            f2 = ev.facts.extend(i, n - i - 1)
            ev.facts = f2
            try:
                box_i, off_i = built["boxes"].item(i, f2), built["offsets"].item(i, f2)
                row = lambda k: Seq.atom(RIGHT).slice(None, k, f2) + Seq.atom(LEFT) + Seq.atom(RIGHT).slice(k, None, f2)
                ri, rj = row(i), row(i + 1)
                here = ri.slice(off_i, Lin.of(off_i) + box_i.f["dom"].length, f2)
                if here != box_i.f["dom"]:
                    fails.append("R10.2 base case: box_i expects %r at offset %r of row %r, finds %r" % (box_i.f["dom"], off_i, ri, here))
                after = ri.slice(None, off_i, f2) + box_i.f["cod"] + ri.slice(Lin.of(off_i) + box_i.f["dom"].length, None, f2)
                if after != rj:
                    fails.append("R10.2 base case: row after box_i is %r, spec %r" % (after, rj))
                if not f2.eq(built["boxes"].length, n) or not f2.eq(built["offsets"].length, n):
                    fails.append("R10.2 base case: %r boxes / %r offsets, spec |right|" % (built["boxes"].length, built["offsets"].length))
            except (Unlocatable, Unsupported, Undecided) as e:
                fails.append("R10.2 base case: %s: %s" % (type(e).__name__, e))
    for f in fails:
        out("VIOLATION-CANDIDATE " + f)
    if not fails:
        out("  R10.2 ok: three cases (|left| = 0, 1, >= 2) typed left@right -> right@left on atoms; base case scan verified")
    return 1 if fails else 0


def seg_pattern(seq, atom_map):
    """describe a sequence as a list of (lo, hi) bounds over one underlying atom"""
    pat = []
    for p in seq.parts:
        if isinstance(p, Seg):
            pat.append((p.lo, p.hi))
        elif isinstance(p, Item) and id(p.value) in atom_map:
            pat.append(atom_map[id(p.value)])
        elif isinstance(p, Item) and isinstance(p.value, Lin) and p.value in atom_map:
            pat.append(atom_map[p.value])
        else:
            pat.append(("?", repr(p)))
    return pat


def check_permutation(path="/repo/discopy/monoidal.py", out=print):
    fn = find_method(path, "Diagram", "permutation")
    loop = next(s for s in fn.body if isinstance(s, ast.For))
    C, PERM = Atom("cod"), Atom("perm")
    n, i = C.length, Lin.var("i")
    facts = Facts().with_eq(PERM.length, n).extend(i, n - i - 1)
    ev = Ev10(facts, "monoidal.Diagram.permutation")
    factory = Obj("Factory", id=Closure(lambda t: TD(t, t)), swap=Closure(swap_contract))
    env = {"perm": Seq.atom(PERM), "dom": Seq.atom(Atom("dom")), "ar_factory": factory,
           "diagram": TD(Seq.atom(Atom("dom")), Seq.atom(C))}
    fails = []
    try:
        ev.bind(loop.target, i, env)
        # run the statement defining j first so that the invariant fact j >= i can be added
        first, rest = loop.body[0], loop.body[1:]
        ev.run([first], env)
        if len(ev.index_facts) != 1 or ev.index_facts[0][0] != Seq.atom(PERM) or not ev.facts.eq(ev.index_facts[0][2], i):
            raise Unsupported("expected `j = perm.index(i)` as the first statement, found %s" % ast.unparse(first))
        j = ev.index_facts[0][1]
        ev.facts = ev.facts.extend(j - i)          # invariant: perm[:i] == [0..i-1], hence the index of i is >= i
        ev.run(rest, env)
    except (Unlocatable, Unsupported, Undecided) as e:
        fails.append("R10.3 loop line %d: %s: %s" % (loop.lineno, type(e).__name__, e))
    else:
        fails += ["R10.3 layer does not compose with the current codomain: %r" % o for o in ev.obligations if not o.ok]
        new_cod, new_perm = env["diagram"].f["cod"], env["perm"]
        want = [(Lin.of(0), i), (j, j + 1), (i, j), (j + 1, n)]
        norm = lambda pat: [(a, b) for a, b in pat if not (isinstance(a, Lin) and ev.facts.eq(a, b))]
        pc = seg_pattern(new_cod, {})
        pp = seg_pattern(new_perm, {i: (j, j + 1)})       # the inserted element i is perm[j]
        pp = [(a, (PERM.length if isinstance(b, Lin) and b == PERM.length else b)) for a, b in pp]
        canon = lambda pat: [(repr(a), repr(ev_sub(b))) for a, b in pat]
        def ev_sub(b):
            return b.subst({"|perm|": n}) if isinstance(b, Lin) else b
        if canon(pc) != canon(want):
            fails.append("R10.3 the layer rearranges the codomain as %r, spec %r" % (pc, want))
        if canon(pp) != canon(pc):
            fails.append("R10.3 `perm` is rearranged as %r but the wires as %r" % (pp, pc))
    for f in fails:
        out("VIOLATION-CANDIDATE " + f)
    if not fails:
        out("  R10.3 ok: wires and perm both rearranged as [0:i] [j] [i:j] [j+1:]; %d side conditions proved" % len(ev.obligations))
    return 1 if fails else 0


if __name__ == "__main__":
    sys.exit(check_swap() | check_permutation())
