"""C07 — snake removal is sound for rigid diagrams (R07.1–R07.6; engines A, B, F)."""
import ast
from ..lin import Lin, Facts
from ..core import AnalysisError
from ..cfg import CFG
from .. import pred, shape
from .c01 import h_unsnake, own_nodes

EXPLANATION = (
    "rewriting.snake_removal is analysed from source. follow_wire: the three-way split of each later box (consumes the wire / "
    "left of it, shifting it by |cod|-|dom| / right of it) is compared, as linear normal forms, with the interval spec, and each box "
    "goes to exactly one obstruction list. find_snake: a cap/cup pair is yankable only when the followed leg of the cap enters the "
    "opposite leg of a Cup (left snake: offsets[cup]+1 == wire from offsets[cap]; right snake: offsets[cup] == wire from "
    "offsets[cap]+1) AND the wire that survives has the same type on both sides (otherwise the pair is not an instance of a snake "
    "equation and deleting it would not compose). unsnake: every obstruction loop performs exactly one interchange, one yield and one "
    "index update of the matching end (cap += 1 / cup -= 1), so the pair ends adjacent; the deletion cuts boxes, offsets and layers "
    "with identical index expressions under a checked >> and keeps dom/cod; every yielded value comes from interchange or from this "
    "deletion; the tail delegates to the monoidal normaliser. Cup/Cap constructors refuse non-adjoint types. The re-indexing of the "
    "other list of obstructions after each move is decided as well (the recorded indices beyond the moved box shift by one), and the search returns every pair that "
    "satisfies the four conditions (completeness), not only such pairs. Not decided: denotational equality (snake equations and the interchange law, cited).")

RW, RIG = "discopy.rewriting", "discopy.rigid"
Q = RW + ".snake_removal"


def inner(ctx, fn, name):
    for n in ast.walk(fn):
        if isinstance(n, ast.FunctionDef) and n.name == name:
            return n
    raise AnalysisError("inner function %s of snake_removal not found" % name)


def lin_env(mapping):
    def ev(nd):
        s = ast.unparse(nd)
        if s in mapping:
            return mapping[s]
        if isinstance(nd, ast.Constant) and isinstance(nd.value, int) and not isinstance(nd.value, bool):
            return Lin.of(nd.value)
        if isinstance(nd, ast.BinOp) and isinstance(nd.op, (ast.Add, ast.Sub)):
            a, b = ev(nd.left), ev(nd.right)
            return a + b if isinstance(nd.op, ast.Add) else a - b
        raise ValueError("not linear: " + s)
    return ev


def check_follow_wire(ctx, top):
    fw = inner(ctx, top, "follow_wire")
    ctx.analysed(Q + ".follow_wire")
    params = [a.arg for a in fw.args.args]
    ctx.need(len(params) == 3, "follow_wire(diagram, i, j) signature changed")
    dg, iv, jv = params
    loop = next((s for s in fw.body if isinstance(s, ast.While)), None)
    ctx.need(loop is not None, "no while loop in follow_wire")
    # box, off = diagram.boxes[i], diagram.offsets[i]
    single = {ast.unparse(s.value): s.targets[0].id for s in loop.body if isinstance(s, ast.Assign) and len(s.targets) == 1 and isinstance(s.targets[0], ast.Name)}
    for s in loop.body:
        if isinstance(s, ast.Assign) and isinstance(s.targets[0], ast.Tuple) and isinstance(s.value, ast.Tuple):
            single.update({ast.unparse(v): t.id for t, v in zip(s.targets[0].elts, s.value.elts) if isinstance(t, ast.Name)})
    binds = [s for s in loop.body if isinstance(s, ast.Assign)]
    ctx.need(bool(binds), "follow_wire does not bind the current box and offset")
    bx, of = single.get("%s.boxes[%s]" % (dg, iv)), single.get("%s.offsets[%s]" % (dg, iv))
    if of is None:
        bx = None
    ctx.ob("R07.1", Q + ".follow_wire:current-box", bx is not None and of is not None, found=[ast.unparse(b) for b in binds][:3], required="box, off = diagram.boxes[i], diagram.offsets[i]",
           mod=RW, node=binds[0], sig="current-box")
    if bx is None:
        return
    off, j, d, c = Lin.var("off"), Lin.var("j"), Lin.var("|dom|"), Lin.var("|cod|")
    ev = lin_env({of: off, jv: j, "len(%s.dom)" % bx: d, "len(%s.cod)" % bx: c})
    ifs = [s for s in loop.body if isinstance(s, ast.If)]
    ctx.need(len(ifs) == 2, "follow_wire: expected a two-stage split inside the loop, found %d ifs" % len(ifs))
    try:
        f0 = pred.nf(ifs[0].test, ev)
        f1 = pred.nf(ifs[1].test, ev)
    except Exception as e:
        raise AnalysisError("follow_wire tests outside the recognised idioms: %s" % e)
    want0 = pred._and(pred.atom_ge(j - off), pred.atom_ge(off + d - j - 1))
    ctx.ob("R07.1", Q + ".follow_wire:consumed", pred.equivalent(f0, want0), found=pred.show(f0), required=pred.show(want0) + "  (off <= j < off + |dom|)",
           mod=RW, node=ifs[0], sig="consumed-test")
    r0 = ifs[0].body[-1]
    okr = isinstance(r0, ast.Return) and isinstance(r0.value, ast.Tuple) and len(r0.value.elts) == 3 and \
        [ast.unparse(x) for x in r0.value.elts[:2]] == [iv, jv]
    ctx.ob("R07.1", Q + ".follow_wire:consumed-returns", okr, found=ast.unparse(r0), required="return i, j, (left_obstruction, right_obstruction)",
           mod=RW, node=r0, sig="consumed-returns")
    # on the path to ifs[1], not f0 holds: under it, `off <= j` is the same as `off + |dom| <= j`
    want1 = pred.atom_ge(j - off)
    under = pred._and(pred.negate(f0), f1)
    spec_under = pred._and(pred.negate(want0), want1)
    ctx.ob("R07.1", Q + ".follow_wire:left-of-wire", pred.equivalent(under, spec_under), found=pred.show(f1), required=pred.show(want1) + "  (box left of the wire)",
           mod=RW, node=ifs[1], sig="left-test")
    upd = [s for s in ifs[1].body if isinstance(s, ast.AugAssign)]
    oku = False
    if len(upd) == 1 and isinstance(upd[0].op, ast.Add) and ast.unparse(upd[0].target) == jv:
        try:
            oku = ev(upd[0].value) == c - d
        except ValueError:
            oku = False
    ctx.ob("R07.1", Q + ".follow_wire:shift", oku, found=[ast.unparse(u) for u in upd], required="j += len(box.cod) - len(box.dom)", mod=RW,
           node=ifs[1], sig="shift")
    def appends(body):
        return [ast.unparse(s.value.func.value) for s in body if isinstance(s, ast.Expr) and isinstance(s.value, ast.Call)
                and isinstance(s.value.func, ast.Attribute) and s.value.func.attr == "append" and ast.unparse(s.value.args[0]) == iv]
    app_t, app_f = appends(ifs[1].body), appends(ifs[1].orelse)
    rets = [n for n in ast.walk(fw) if isinstance(n, ast.Return)]
    pairs = {ast.unparse(r.value.elts[2]) for r in rets if isinstance(r.value, ast.Tuple) and len(r.value.elts) == 3}
    ok = len(app_t) == 1 and len(app_f) == 1 and app_t != app_f and pairs == {"(%s, %s)" % (app_t[0], app_f[0])}
    ctx.ob("R07.1", Q + ".follow_wire:partition", ok, found="then-appends %s / else-appends %s / returned %s" % (app_t, app_f, sorted(pairs)),
           required="each box goes to exactly one of (left, right), returned in that order", mod=RW, node=ifs[1], sig="partition")
    last = fw.body[-1]
    okl = isinstance(last, ast.Return) and isinstance(last.value, ast.Tuple) and ast.unparse(last.value.elts[0]) == "len(%s)" % dg
    ctx.ob("R07.1", Q + ".follow_wire:falls-off", okl, found=ast.unparse(last), required="returns len(diagram) when no box consumes the wire", mod=RW,
           node=last, sig="falls-off")
    # loop header: visits every later box
    inc = [s for s in loop.body if isinstance(s, ast.AugAssign) and ast.unparse(s.target) == iv]
    okh = ast.unparse(loop.test) == "%s < len(%s) - 1" % (iv, dg) and len(inc) == 1 and ast.unparse(inc[0]) == "%s += 1" % iv and loop.body[0] is inc[0]
    ctx.ob("R07.1", Q + ".follow_wire:visits-all", okh, found="while %s: %s" % (ast.unparse(loop.test), ast.unparse(loop.body[0])),
           required="i runs over every later box in order", mod=RW, node=loop, sig="visits-all")
    return app_t[0] if app_t else None, app_f[0] if app_f else None


def check_find_snake(ctx, top):
    m = ctx.model
    fs = inner(ctx, top, "find_snake")
    ctx.analysed(Q + ".find_snake")
    dg = fs.args.args[0].arg
    outer = next((n for n in fs.body if isinstance(n, ast.For)), None)
    ctx.need(outer is not None and isinstance(outer.target, ast.Name), "find_snake: no loop over cap candidates")
    cap = outer.target.id
    skip = [s for s in outer.body if isinstance(s, ast.If) and isinstance(s.body[-1], ast.Continue)]
    okc = bool(skip) and ast.unparse(skip[0].test) == "not isinstance(%s.boxes[%s], Cap)" % (dg, cap) and \
        m.resolve_class(RW, "Cap") is None
    # `Cap` is imported inside snake_removal: resolve through the function-local import
    ctx.ob("R07.2", Q + ".find_snake:cap-only", bool(skip) and ast.unparse(shape.inline(skip[0].test, outer.body)) == "not isinstance(%s.boxes[%s], Cap)" % (dg, cap),
           found=[ast.unparse(s.test) for s in skip], required="only Cap boxes start a snake", mod=RW, node=outer, sig="cap-only")
    legs = next((n for n in ast.walk(outer) if isinstance(n, ast.For) and isinstance(n.iter, ast.List) and len(n.iter.elts) == 2), None)
    ctx.need(legs is not None and isinstance(legs.target, ast.Tuple) and len(legs.target.elts) == 2, "find_snake: no loop over the two legs of the cap")
    flag, wire = (x.id for x in legs.target.elts)
    starts = {}
    oc = Lin.var("oc")
    evs = lin_env({"%s.offsets[%s]" % (dg, cap): oc})
    for e in legs.iter.elts:
        try:
            starts[e.elts[0].value] = evs(e.elts[1])
        except Exception:
            starts[ast.unparse(e.elts[0])] = None
    ctx.ob("R07.2", Q + ".find_snake:legs", starts == {True: oc, False: oc + 1}, found=starts, required="left snake follows offsets[cap], right snake offsets[cap] + 1",
           mod=RW, node=legs, sig="legs")
    fol = [s for s in legs.body if isinstance(s, ast.Assign) and isinstance(s.value, ast.Call) and ast.unparse(s.value.func) == "follow_wire"]
    ctx.need(len(fol) == 1 and isinstance(fol[0].targets[0], ast.Tuple) and len(fol[0].targets[0].elts) == 3, "find_snake does not call follow_wire")
    cup, wire2, obst = (ast.unparse(x) for x in fol[0].targets[0].elts)
    ctx.ob("R07.2", Q + ".find_snake:follows", [ast.unparse(a) for a in fol[0].value.args] == [dg, cap, wire] and wire2 == wire,
           found=ast.unparse(fol[0]), required="cup, wire, obstructions = follow_wire(diagram, cap, wire)", mod=RW, node=fol[0], sig="follows")
    # the yankable predicate: every path from follow_wire to the `return` of the pair
    ret = next((s for s in ast.walk(legs) if isinstance(s, ast.Return)), None)
    ctx.need(ret is not None, "find_snake never returns a pair")
    ctx.ob("R07.2", Q + ".find_snake:returns", isinstance(ret.value, ast.Tuple) and [ast.unparse(x) for x in ret.value.elts] == [cup, cap, obst, flag],
           found=ast.unparse(ret), required="return cup, cap, obstructions, left_snake", mod=RW, node=ret, sig="returns")
    g = CFG(fs)
    loc = shape.single_assignments(legs.body)
    ocu, w = Lin.var("ocu"), Lin.var("w")
    CANON = {dg: "D", cap: "cap", cup: "cup"}

    def opaque(nd):
        return ast.unparse(shape.rename(nd, CANON))
    for left in (True, False):
        def evl(nd, left=left):
            s = ast.unparse(nd)
            if s == flag:
                return left
            if s == "%s.offsets[%s]" % (dg, cup):
                return ocu
            if s == wire:
                return w
            if isinstance(nd, ast.Constant) and isinstance(nd.value, int) and not isinstance(nd.value, bool):
                return Lin.of(nd.value)
            if isinstance(nd, ast.BinOp) and isinstance(nd.op, (ast.Add, ast.Sub)):
                a, b = evl(nd.left), evl(nd.right)
                if isinstance(a, Lin) and isinstance(b, Lin):
                    return a + b if isinstance(nd.op, ast.Add) else a - b
            raise ValueError(s)
        known = pred.TRUE
        for st, lab, how in g.raising_guards_before(ret) if False else continue_guards(legs, ret):
            test = shape.inline(shape.inline(st.test, legs.body), outer.body)          # locals of the leg loop, then of the cap loop (explaining variables)
            test = _choose(test, flag, left)                                            # `a if left_snake else b` on the side being read
            f = pred.nf(test, evl, opaque)
            known = pred._and(known, pred.negate(f) if lab == "T" else f)
        side = "left" if left else "right"
        leg_eq = pred.compare_nf(ast.Eq(), ocu + 1, w) if left else pred.compare_nf(ast.Eq(), ocu, w)
        ctx.ob("R07.2", Q + ".find_snake:yankable-%s:leg" % side, pred.entails(known, leg_eq), found=pred.show(known),
               required=("offsets[cup] + 1 == wire" if left else "offsets[cup] == wire") + " on every path returning the pair", mod=RW, node=ret,
               sig="leg-" + side)
        is_cup = frozenset([frozenset([("opaque", "isinstance(D.boxes[cup], Cup)", True)])])
        in_rng = frozenset([frozenset([("opaque", "cup == len(D)", False)])])
        ctx.ob("R07.2", Q + ".find_snake:yankable-%s:cup" % side, pred.entails(known, is_cup) and pred.entails(known, in_rng), found=pred.show(known),
               required="the box that consumes the leg exists and is a Cup", mod=RW, node=ret, sig="cup-" + side)
        alts = [("D.boxes[cap].cod[1:]", "D.boxes[cup].dom[:1]"), ("D.boxes[cap].right", "D.boxes[cup].left")] if left else \
               [("D.boxes[cap].cod[:1]", "D.boxes[cup].dom[1:]"), ("D.boxes[cap].left", "D.boxes[cup].right")]
        okt = any(pred.entails(known, frozenset([frozenset([("opaque", "%s == %s" % tuple(sorted(p)), True)])])) for p in alts)
        # ... and conversely: every pair that satisfies the four conditions IS returned (a snake the search skips stays in the normal form)
        full = [pred._and(pred._and(pred._and(in_rng, is_cup), leg_eq), frozenset([frozenset([("opaque", "%s == %s" % tuple(sorted(p_)), True)])])) for p_ in alts]
        okc = any(pred.entails(f_, known) for f_ in full)
        ctx.ob("R07.2", Q + ".find_snake:yankable-%s:complete" % side, okc, found=pred.show(known), required="nothing else is asked of a pair: cup in range, a Cup, the leg enters the opposite leg, the surviving wire keeps "
               "its type (any further condition leaves removable snakes in the normal form)", mod=RW, node=ret, sig="complete-" + side)
        ctx.ob("R07.6", Q + ".find_snake:yankable-%s:surviving-wire" % side, okt, found=pred.show(known),
               required="%s == %s (the wire that survives the yank has one type; otherwise the pair is not a snake equation)" % alts[0], mod=RW,
               node=ret, sig="types-" + side)
    return cap, cup


class _Choose(ast.NodeTransformer):
    def __init__(self, flag, val):
        self.flag, self.val = flag, val

    def visit_IfExp(self, e):
        self.generic_visit(e)
        t, neg = e.test, False
        while isinstance(t, ast.UnaryOp) and isinstance(t.op, ast.Not):
            t, neg = t.operand, not neg
        if isinstance(t, ast.Name) and t.id == self.flag:
            return e.body if (self.val != neg) else e.orelse
        return e


def _choose(test, flag, val):
    import copy
    return _Choose(flag, val).visit(copy.deepcopy(test))


def continue_guards(loop, target):
    """[(if, 'T', how)] for `if t: continue` statements of the loop body that precede `target` at the top level of the loop"""
    out = []
    for st in loop.body:
        if any(x is target for x in ast.walk(st)):
            break
        if isinstance(st, ast.If) and not st.orelse and isinstance(st.body[-1], ast.Continue):
            out.append((st, "T", "continue"))
    return out


def check_unsnake(ctx, top, lists):
    us = inner(ctx, top, "unsnake")
    ctx.analysed(Q + ".unsnake")
    params = [a.arg for a in us.args.args]
    dg, cupv, capv, flag = params[0], params[1], params[2], params[4]
    unpack = next((s for s in us.body if isinstance(s, ast.Assign) and isinstance(s.targets[0], ast.Tuple) and ast.unparse(s.value) == params[3]), None)
    ctx.need(unpack is not None, "unsnake does not unpack the obstructions")
    lo, ro = (x.id for x in unpack.targets[0].elts)
    branch = next((s for s in us.body if isinstance(s, ast.If) and ast.unparse(s.test) == flag), None)
    ctx.need(branch is not None, "unsnake has no `if left_snake:` split")
    spec = {("left", lo): (capv, False), ("left", ro): (cupv, True), ("right", lo): (cupv, True), ("right", ro): (capv, False)}
    seen = {}
    for body, side in ((branch.body, "left"), (branch.orelse, "right")):
        for lp in [s for s in body if isinstance(s, ast.For)]:
            it = lp.iter
            rev = isinstance(it, ast.Subscript) and ast.unparse(it.slice) == "::-1"
            lst = ast.unparse(it.value) if rev else ast.unparse(it)
            calls = [n for n in own_nodes(lp) if isinstance(n, ast.Call) and isinstance(n.func, ast.Attribute) and n.func.attr == "interchange"]
            ys = [n for n in own_nodes(lp) if isinstance(n, ast.Yield)]
            upd = [s for s in lp.body if isinstance(s, ast.AugAssign) and ast.unparse(s.target) in (capv, cupv)]
            cname = "%s.unsnake:%s-snake:%s" % (Q, side, lst)
            if (side, lst) not in spec:
                raise AnalysisError("unsnake loops over %s, not one of the obstruction lists" % lst)
            tgt, want_rev = spec[(side, lst)]
            probs = []
            if len(calls) != 1:
                probs.append("%d interchange calls" % len(calls))
            else:
                c = calls[0]
                if [ast.unparse(a) for a in c.args] != [ast.unparse(lp.target), tgt]:
                    probs.append("interchange(%s), spec interchange(<obstruction>, %s)" % (", ".join(ast.unparse(a) for a in c.args), tgt))
                asg = [s for s in lp.body if isinstance(s, ast.Assign) and s.value is c]
                if not asg or ast.unparse(asg[0].targets[0]) != ast.unparse(c.func.value) or ast.unparse(c.func.value) != dg:
                    probs.append("the step is not chained (diagram = diagram.interchange(...))")
            if len(ys) != 1 or ast.unparse(ys[0].value) != dg:
                probs.append("%d yields of %s" % (len(ys), [ast.unparse(y.value) for y in ys]))
            elif len(calls) == 1 and not (calls[0].lineno < ys[0].lineno):
                probs.append("the step is yielded before it is taken (yield precedes the interchange)")
            want_upd = "%s %s 1" % (tgt, "+=" if tgt == capv else "-=")
            if [ast.unparse(u) for u in upd] != [want_upd]:
                probs.append("index updates %s, spec %s" % ([ast.unparse(u) for u in upd], want_upd))
            if rev != want_rev:
                probs.append("obstructions visited %s, spec %s (nearest to the %s first)" % ("reversed" if rev else "in order", "reversed" if want_rev else "in order", tgt))
            # index bookkeeping of the list that is consumed later: moving `box` to `tgt` shifts the boxes in between by one
            other = ro if lst == lo else lo
            first_loop = (lst == lo)
            if first_loop:
                moved = ast.unparse(lp.target)
                r_, b_ = Lin.var("r"), Lin.var("b")
                want_cond = pred.atom_ge(r_ - b_ - 1) if tgt == cupv else pred.atom_ge(b_ - r_ - 1)     # r > box (towards cup) / r < box (towards cap)
                want_delta = -1 if tgt == cupv else 1
                touching = [s for s in lp.body if other in {x.id for x in ast.walk(s) if isinstance(x, ast.Name)}]
                shift_ok, shown = False, [ast.unparse(s)[:80] for s in touching]
                for s in touching:
                    cond, delta, elem = None, None, None
                    if isinstance(s, ast.For) and isinstance(s.iter, ast.Call) and ast.unparse(s.iter.func) == "enumerate" and ast.unparse(s.iter.args[0]) == other \
                            and len(s.body) == 1 and isinstance(s.body[0], ast.If) and len(s.body[0].body) == 1 and isinstance(s.body[0].body[0], ast.AugAssign):
                        idx, elem = (x.id for x in s.target.elts)
                        aug = s.body[0].body[0]
                        if ast.unparse(aug.target) == "%s[%s]" % (other, idx) and ast.unparse(aug.value) == "1":
                            cond, delta = s.body[0].test, (1 if isinstance(aug.op, ast.Add) else -1)
                    elif isinstance(s, ast.Assign) and ast.unparse(s.targets[0]) == other and isinstance(s.value, ast.ListComp) \
                            and ast.unparse(s.value.generators[0].iter) == other and not s.value.generators[0].ifs:
                        elem = ast.unparse(s.value.generators[0].target)
                        e = s.value.elt
                        if isinstance(e, ast.IfExp) and ast.unparse(e.orelse) == elem and isinstance(e.body, ast.BinOp) and ast.unparse(e.body.left) == elem and ast.unparse(e.body.right) == "1":
                            cond, delta = e.test, (1 if isinstance(e.body.op, ast.Add) else -1)
                        elif isinstance(e, ast.BinOp) and ast.unparse(e.left) == elem and ast.unparse(e.right) == "1":
                            cond, delta = ast.Constant(value=True), (1 if isinstance(e.op, ast.Add) else -1)
                    else:
                        raise AnalysisError("unsnake: statement touching %s outside the recognised re-indexing idioms: %s" % (other, ast.unparse(s)[:80]))
                    if cond is None:
                        raise AnalysisError("unsnake: re-indexing of %s outside the recognised idioms: %s" % (other, ast.unparse(s)[:80]))
                    try:
                        f = pred.TRUE if isinstance(cond, ast.Constant) and cond.value is True else pred.nf(cond, lin_env({elem: r_, moved: b_, cupv: Lin.var("cup"), capv: Lin.var("cap")}))
                    except Exception as e:
                        raise AnalysisError("unsnake: re-indexing test outside the recognised idioms: %s" % e)
                    shift_ok = pred.equivalent(f, want_cond, Facts(free=["r", "b", "cup", "cap"])) and delta == want_delta
                    shown = ["%s shifted by %+d when %s" % (other, delta, pred.show(f))]
                ctx.ob("R07.3", cname + ":re-indexing", shift_ok, found=shown or "the indices recorded in %s are not updated" % other,
                       required="%s[k] %s 1 exactly for the boxes between the moved box and %s (%s)" % (other, "-=" if want_delta < 0 else "+=", tgt, pred.show(want_cond)), mod=RW, node=lp,
                       sig="re-indexing")
            seen[(side, lst)] = True
            ctx.ob("R07.3", cname, not probs, found="; ".join(probs) or "one interchange(box, %s), one yield, %s" % (tgt, want_upd),
                   required="exactly one interchange towards %s, one yield, %s" % (tgt, want_upd), mod=RW, node=lp, sig="accounting")
    ctx.ob("R07.3", Q + ".unsnake:all-four-loops", len(seen) == 4, found=sorted(seen), required="both obstruction lists are cleared on both sides", mod=RW,
           node=branch, sig="four-loops")
    # R07.4 deletion (same handler as the C01 site)
    site = next((n for n in own_nodes(us) if isinstance(n, ast.Call) and ast.unparse(n.func) == "Diagram"), None)
    ctx.need(site is not None, "unsnake does not build the shortened diagram")
    probs, pattern = h_unsnake(ctx, RW, "snake_removal.unsnake", us, site, "diagram")
    # the cut is exactly [:cap] and [cup + 1:]
    cuts = []
    for n in own_nodes(us):
        if isinstance(n, ast.Assign) and ast.unparse(n.targets[0]) == ast.unparse(site.args[2]):
            cuts = [ast.unparse(x.slice) for x in ast.walk(n.value) if isinstance(x, ast.Subscript)]
    if cuts != [":%s" % capv, "%s + 1:" % cupv]:
        probs.append("the deleted range is %s, spec [:%s] and [%s + 1:] (exactly the cap and the cup, adjacent by R07.3)" % (cuts, capv, cupv))
    ctx.ob("R07.4", Q + ".unsnake:deletion", not probs, found="; ".join(probs) or pattern, required="parallel deletion of layers cap..cup under checked >>, same dom/cod",
           mod=RW, node=site, sig="deletion:" + "|".join(p[:30] for p in probs))
    last = us.body[-1]
    ctx.ob("R07.4", Q + ".unsnake:yields-deletion", isinstance(last, ast.Expr) and isinstance(last.value, ast.Yield) and last.value.value is site,
           found=ast.unparse(last)[:80], required="the shortened diagram is the last value yielded", mod=RW, node=last, sig="yields-deletion")


def check_driver(ctx, top):
    m = ctx.model
    ys = [n for n in own_nodes(top) if isinstance(n, ast.Yield)]
    fors = [s for s in ast.walk(top) if isinstance(s, ast.For) and s in list(own_nodes(top))]
    ok, found = True, []
    for y in ys:
        src = None
        for f in fors:
            if any(x is y for x in ast.walk(f)) and isinstance(f.target, ast.Name) and ast.unparse(y.value) == f.target.id:
                src = ast.unparse(f.iter)
        found.append(src)
        ok = ok and src is not None and (src.startswith("unsnake(") or src.startswith("monoidal.Diagram.normalize("))
    ctx.ob("R07.4", Q + ":yields", ok and len(ys) == 2, found=found, required="steps come from unsnake(...) and then from monoidal.Diagram.normalize(...)",
           mod=RW, node=top, sig="driver-yields")
    loop = next((s for s in top.body if isinstance(s, ast.While)), None)
    ctx.need(loop is not None, "snake_removal has no driver loop")
    txt = [ast.unparse(s) for s in loop.body]
    okd = any(t.startswith("yankable = find_snake(diagram)") for t in txt) and any("if yankable is None" in t and "break" in t for t in txt) and \
        any("unsnake(diagram, *yankable)" in t and "diagram = _diagram" in t for t in txt)
    if not okd and ast.unparse(loop.test) == "yankable is not None":
        # the same loop rotated: search once before the loop and again at the end of every pass; the tuple may be unpacked into the call
        before = [ast.unparse(s) for s in top.body if s.lineno < loop.lineno]
        unpack = next((s for s in loop.body if isinstance(s, ast.Assign) and ast.unparse(s.value) == "yankable" and isinstance(s.targets[0], ast.Tuple)), None)
        names_ = [ast.unparse(x) for x in unpack.targets[0].elts] if unpack is not None else None
        fr = next((s for s in loop.body if isinstance(s, ast.For) and isinstance(s.iter, ast.Call) and ast.unparse(s.iter.func) == "unsnake"), None)
        if fr is not None and isinstance(fr.target, ast.Name):
            c = fr.iter
            pos = [ast.unparse(a) for a in c.args]
            kw = {k.arg: ast.unparse(k.value) for k in c.keywords}
            params = [a.arg for a in m.func(Q + ".unsnake").args.args] if False else None
            us_fn = next((n for n in ast.walk(top) if isinstance(n, ast.FunctionDef) and n.name == "unsnake"), None)
            us_params = [a.arg for a in us_fn.args.args] if us_fn is not None else []
            if pos == ["diagram", "*yankable"]:
                args_ok = True
            elif names_ is not None and len(us_params) == 1 + len(names_):
                bound = dict(zip(us_params, pos))
                bound.update(kw)
                args_ok = [bound.get(p_) for p_ in us_params] == ["diagram"] + names_
            else:
                args_ok = False
            okd = "yankable = find_snake(diagram)" in before and txt[-1] == "yankable = find_snake(diagram)" and args_ok and \
                any(ast.unparse(s) == "diagram = %s" % fr.target.id for s in fr.body) and not any(isinstance(x, (ast.Break, ast.Continue)) for x in ast.walk(loop))
    ctx.ob("R07.4", Q + ":driver", okd, found=txt, required="repeat: find a snake in the current diagram, remove it, continue from the result", mod=RW,
           node=loop, sig="driver")
    tail = top.body[-1]
    okt = isinstance(tail, ast.For) and ast.unparse(tail.iter) == "monoidal.Diagram.normalize(diagram, left=left)"
    ctx.ob("R07.4", Q + ":tail", okt, found=ast.unparse(tail)[:90], required="the snake-free diagram is handed to the monoidal normaliser", mod=RW, node=tail,
           sig="tail")
    rd = m.cls(RIG + ".Diagram")
    look = m.lookup(rd, "normalize")
    ctx.ob("R07.4", RIG + ".Diagram.normalize", look is not None and getattr(look[1], "name", None) == "snake_removal", found=getattr(look[1], "name", look),
           required="rigid.Diagram.normalize is rewriting.snake_removal", mod=RIG, node=rd.node, sig="binding")
    nf = m.func(RIG + ".Diagram.normal_form")
    r = next((s.value for s in nf.body if isinstance(s, ast.Return)), None)
    shape.match(ctx, "R07.4", RIG + ".Diagram.normal_form", r, "super().normal_form(normalizer=normalizer or Diagram.normalize, **params)", {}, mod=RIG,
                node=nf, sig="normal-form")


def check_cup_cap(ctx):
    m = ctx.model
    for name in ("Cup", "Cap"):
        fn = m.func("%s.%s.__init__" % (RIG, name))
        ctx.analysed("%s.%s.__init__" % (RIG, name))
        a = [x.arg for x in fn.args.args]
        l, r = a[1], a[2]
        guards = [s for s in fn.body if isinstance(s, ast.If) and isinstance(s.body[-1], ast.Raise) and "AxiomError" in ast.unparse(s.body[-1])]
        ok = False
        want = frozenset([frozenset([("opaque", "L == R.r", False), ("opaque", "L.r == R", False)])])
        for gd in guards:
            f = pred.nf(gd.test, lambda nd: (_ for _ in ()).throw(ValueError()), lambda nd: ast.unparse(shape.rename(nd, {l: "L", r: "R"})))
            ok = ok or f == want
        sup = next((c for c in ast.walk(fn) if isinstance(c, ast.Call) and ast.unparse(c.func) == "super().__init__"), None)
        before = bool(guards) and sup is not None and guards[0].lineno < sup.lineno
        ctx.ob("R07.5", "%s.%s.__init__:adjoint-guard" % (RIG, name), ok and before, found=[ast.unparse(gd.test) for gd in guards],
               required="raise AxiomError unless left.r == right or left == right.r, before the box is built", mod=RIG, node=fn, sig="adjoint-guard")
        want_t = "(L @ R, Ty())" if name == "Cup" else "(Ty(), L @ R)"
        shape.match(ctx, "R07.5", "%s.%s.__init__:type" % (RIG, name), ast.Tuple(elts=sup.args[1:3], ctx=ast.Load()) if sup else None, want_t,
                    {l: "L", r: "R"}, mod=RIG, node=fn, sig="type")
        one = [s for s in fn.body if isinstance(s, ast.If) and isinstance(s.body[-1], ast.Raise) and "ValueError" in ast.unparse(s.body[-1])]
        ctx.ob("R07.5", "%s.%s.__init__:one-wire" % (RIG, name), any(ast.unparse(s.test) == "len(%s) != 1 or len(%s) != 1" % (l, r) for s in one),
               found=[ast.unparse(s.test) for s in one], required="single-wire legs only", mod=RIG, node=fn, sig="one-wire")


def check(ctx):
    ctx.rule("R07.1", "follow_wire: a later box consumes the wire iff off <= j < off+|dom|; else it is left of the wire iff off <= j (then j += |cod|-|dom|), else right; each box goes to exactly one list")
    ctx.rule("R07.2", "find_snake: yankable only when the followed leg of a Cap enters the opposite leg of a Cup")
    ctx.rule("R07.3", "unsnake: each obstruction loop does one interchange towards the matching end, one yield, one index update (the pair ends adjacent)")
    ctx.rule("R07.4", "the deletion removes exactly layers cap..cup in parallel under a checked >>; every yielded step comes from interchange / this deletion / the monoidal normaliser")
    ctx.rule("R07.5", "Cup/Cap refuse non-adjoint or multi-wire legs and are typed left@right -> () / () -> left@right")
    ctx.rule("R07.6", "a pair is yanked only if the surviving wire has the same type on both sides (a snake equation), so well-typed inputs never raise AxiomError")
    top = ctx.model.func(Q)
    ctx.analysed(Q)
    lists = check_follow_wire(ctx, top)
    ctx.attempt(check_find_snake, ctx, top)
    ctx.attempt(check_unsnake, ctx, top, lists)
    ctx.attempt(check_driver, ctx, top)
    ctx.attempt(check_cup_cap, ctx)
    from ..core import Ctx
    from . import c05, c06
    for dep, what in ((c05, "interchange, the primitive of every step (C05)"), (c06, "the monoidal normaliser that finishes the job (C06)")):
        sub = Ctx(dep.__name__.rsplit(".", 1)[1].upper(), ctx.model, ctx.tier)
        try:
            dep.check(sub)
        except AnalysisError:
            bad = [o for o in sub.obs if not o.ok]
            if bad:
                ctx.ob("R07.4", "%s:dependency" % sub.prop, False, found=["%s %s" % (o.rule, o.construct) for o in bad][:4], required="every step of snake removal is taken by " + what, mod=RW, node=top,
                       sig="dep-%s:%s" % (sub.prop, ",".join(sorted({o.rule for o in bad}))))
            raise
        bad = [o for o in sub.obs if not o.ok]
        if not bad and (sub.broken or sub.floor_failures):        # the dependency could not be decided: neither can this obligation (not a violation)
            raise AnalysisError("dependency %s of C07 could not be analysed: %s" % (sub.prop, sub.broken or sub.floor_failures[0]))
        ctx.ob("R07.4", "%s:dependency" % sub.prop, not bad, found=["%s %s" % (o.rule, o.construct) for o in bad][:4] or "all obligations discharged",
               required="every step of snake removal is taken by " + what, mod=RW, node=top, sig="dep-%s:%s" % (sub.prop, ",".join(sorted({o.rule for o in bad}))))
    ctx.floor("R07.1", 8)
    ctx.floor("R07.2", 8)
    ctx.floor("R07.3", 7)
    ctx.floor("R07.4", 7)
    ctx.floor("R07.5", 6)
    ctx.floor("R07.6", 2)
    ctx.not_decided += ["equality of denotation (snake equations + interchange law, cited)"]
