"""Source of MANIFEST.json (tools/mkmanifest.py).  pid -> (technique, level text, level note, design ref)"""
TB = ("Trusted: CPython's ast module; the transfer functions of sa/ (Python slice/list semantics); the generic-instance "
      "argument (analysed code is parametric in type contents); cited theorems (DESIGN §9). discopy is never imported or run.")
CHECKS = {
    "C05": ("abstract evaluation of rewriting.interchange on generic instances (words over type atoms, linear offsets) + predicate normal forms + CFG dominance",
            "Decides, for all inputs, the structural clauses of C05 from the syntax tree of rewriting.interchange: branch predicates equal "
            "the interval-disjointness spec, else raises InterchangerError, exchanged layers/offsets/boxes equal the spec on the generic "
            "instance of each configuration and compose with prefix/suffix, index guard dominates indexing, long moves telescope. "
            "Functor-invariance of the result is the interchange law (cited, not re-proved).", TB, "DESIGN.md §4 C05"),
}
CHECKS["C01"] = ("census of scan-bypassing constructor calls over the resolved class model + per-site discharge by abstract evaluation on generic instances; CFG dominance for guards",
    "Decides for all inputs that every construction bypassing the run-time scan (cat.Arrow(_scan=False), Diagram(layers=...)) satisfies the representation invariant RI1-RI4 "
    "(boxes/offsets/layers agree, layers compose from dom to cod), that the two scanning constructors refuse ill-typed requests including out-of-range offsets, and that "
    "composition is guarded. A new unscanned site that matches no discharge pattern makes the run analysis-broken (exit 2). Not decided: user subclasses, user-supplied functor images.",
    TB, "DESIGN.md §4 C01")
CHECKS["C04"] = ("abstract evaluation of the functor scan loop on a generic iteration (loop invariant), isinstance-dispatch analysis over the class hierarchy, shape rules modulo renaming",
    "Decides from the source of the three Functor.__call__ methods, rigid.cups/caps and Ob/Ty adjoints: fold-by-then, the scan-splice loop invariant result.cod = F(scan), "
    "dispatch order/totality and the structural mapping of swaps, cups, caps, daggers, sums, bubbles, the winding homomorphism, and the cups index chain on symbolic multi-wire types. "
    "With C02's laws these give functoriality; user-supplied images are checked at run time by >> (not decided here).", TB, "DESIGN.md §4 C04")
NOT_YET = "check not built yet in this round (static rules designed in DESIGN.md §4; will be claimed when the rule module lands)"
NOT_APPLICABLE = {("C%02d" % i): NOT_YET for i in range(1, 21) if ("C%02d" % i) not in CHECKS}
NOTES = ("All checks are static analyses of /repo/discopy's source (python -m sa.check <id>); exit 0 / 1 (VIOLATION) / 2 (ANALYSIS-ERROR). "
         "Known findings: /verif/known_findings.json. Checker validation corpus: python -m sa.selftest.")
