"""C12 — mixed evaluation agrees with pure evaluation and the Born rule (R12.1–R12.6; engines A, B, D, E)."""
import ast
from ..lin import Lin, Facts
from ..words import Seq, Seg, Atom, Unlocatable
from ..beval import Obj, Closure, Unsupported, Undecided
from ..diag import Ev, TD, swap_contract
from ..core import AnalysisError
from .. import shape, dispatch

EXPLANATION = (
    "A CQMap over (classical c, quantum q) is a tensor over c·q·q (one wire per bit, two per qudit). Decided from source: the layout "
    "of every CQMap constructor (udom/ucod = classical @ quantum @ quantum; pure = conj ⊗ u in Tensor.tensor's layout; measure = the "
    "all-equal delta with exactly |udom|+|ucod| indices, 3 for destructive and 5 for non-destructive; discard = ones on the "
    "classical block ⊗ identity pairing of the quantum block; encode/caps by dagger); the swap network of CQMap.tensor, evaluated on "
    "positional wire atoms, routes (c0 c1)(q0 q1)(q0' q1') to (c0 q0 q0')(c1 q1 q1') and back; the per-box dispatch of cqmap.Functor "
    "is ordered, total over the mixed box classes of circuit.py, and sends MixedState/Encode to the dagger of their partner; a "
    "two-kind inference {CQ, Dim} over cqmap.py checks that every call passes the kind of type its callee reads; the Born rule "
    "(pure scalar -> |z|^2, mixed scalar -> z); Circuit.is_mixed selects the functor and get_counts/measure read the real part of "
    "the evaluation of init_and_discard(). Not decided: trace preservation and numeric agreement of whole circuits.")

CQ, CIRC = "discopy.quantum.cqmap", "discopy.quantum.circuit"


def ret_expr(body):
    for st in body:
        if isinstance(st, ast.Return):
            return st.value
    return None


def check_layouts(ctx):
    m = ctx.model
    fn = m.func(CQ + ".CQMap.__init__")
    ctx.analysed(CQ + ".CQMap.__init__")
    loc = {}
    for s in ast.walk(fn):
        if isinstance(s, ast.Assign) and isinstance(s.targets[0], ast.Name):
            loc.setdefault(s.targets[0].id, s.value)
    for side in ("dom", "cod"):
        shape.match(ctx, "R12.1", "%s.CQMap.__init__:u%s" % (CQ, side), loc.get("u" + side), "%s.classical @ %s.quantum @ %s.quantum" % ((side,) * 3), {}, mod=CQ, node=fn,
                    sig="u" + side, required="one wire per classical digit, two per quantum digit: c · q · q")
    sup = next((c for c in ast.walk(fn) if isinstance(c, ast.Call) and ast.unparse(c.func) == "super().__init__"), None)
    shape.match(ctx, "R12.1", CQ + ".CQMap.__init__:tensor", sup, "super().__init__(udom, ucod, utensor.array if array is None else array)", {}, mod=CQ, node=fn, sig="init-tensor",
                required="the underlying tensor goes from the doubled domain to the doubled codomain (the array is laid out domain first)")
    fields = []
    for st in fn.body:           # field assignments, one per statement (the values are plain parameters / locals: order is immaterial)
        if isinstance(st, ast.Assign) and isinstance(st.targets[0], ast.Tuple) and isinstance(st.value, ast.Tuple) and len(st.targets[0].elts) == len(st.value.elts) \
                and all(isinstance(v, ast.Name) for v in st.value.elts):
            fields += [ast.Assign(targets=[t], value=v, lineno=st.lineno) for t, v in zip(st.targets[0].elts, st.value.elts)]
        elif isinstance(st, ast.Assign) and isinstance(st.targets[0], ast.Attribute):
            fields.append(st)
    shape.match_stmts(ctx, "R12.1", CQ + ".CQMap.__init__:fields", fields,
                      ["self._dom = dom", "self._cod = cod", "self._udom = udom", "self._ucod = ucod"], mod=CQ, node=fn, sig="init-fields", required="dom / cod are the CQ types given, _udom / _ucod their doubled layouts")
    ci = m.func(CQ + ".CQ.__init__")
    ctx.analysed(CQ + ".CQ.__init__")
    a_ = [x.arg for x in ci.args.args]
    shape.match_stmts(ctx, "R12.1", CQ + ".CQ.__init__", [s for s in shape.expand_tuple_assigns(ci.body) if isinstance(s, (ast.Assign, ast.Expr)) and not (isinstance(s, ast.Expr) and isinstance(s.value, ast.Constant))],
                      ["self.classical = classical", "self.quantum = quantum", "types = [Ob('C({})'.format(dim)) for dim in classical] + [Ob('Q({})'.format(dim)) for dim in quantum]", "super().__init__(*types)"],
                      dict(zip(a_[1:], ("classical", "quantum"))), mod=CQ, node=ci, sig="cq-init", exact=True,
                      required="a classical-quantum type keeps its two parts and is, as a type, one object per classical dimension followed by one per quantum dimension (what == and the composition guards compare)")
    ad = m.func(CQ + ".CQMap.__add__")
    ctx.analysed(CQ + ".CQMap.__add__")
    shape.match(ctx, "R12.1", CQ + ".CQMap.__add__", ret_expr(ad.body[-1:]), "CQMap(self.dom, self.cod, self.array + other.array)", {ad.args.args[1].arg: "other"}, mod=CQ, node=ad, sig="cq-add",
                required="maps of one type add entry by entry and keep their type (terms of a sum of circuits)")
    ut = m.func(CQ + ".CQMap.utensor")
    ctx.analysed(CQ + ".CQMap.utensor")
    shape.match(ctx, "R12.1", CQ + ".CQMap.utensor", ret_expr(ut.body), "Tensor(self._udom, self._ucod, self.array)", {}, mod=CQ, node=ut, sig="utensor")
    fn = m.func(CQ + ".CQMap.pure")
    ctx.analysed(CQ + ".CQMap.pure", CQ + ".CQMap.classical", CQ + ".CQMap.discard", CQ + ".CQMap.measure", CQ + ".CQMap.encode")
    shape.match(ctx, "R12.1", CQ + ".CQMap.pure", ret_expr(fn.body), "CQMap(Q(utensor.dom), Q(utensor.cod), (utensor.conjugate() @ utensor).array)", {}, mod=CQ, node=fn, sig="pure",
                required="the doubled map conj(u) ⊗ u, typed Q(dom) -> Q(cod)")
    fn = m.func(CQ + ".CQMap.classical")
    shape.match(ctx, "R12.1", CQ + ".CQMap.classical", ret_expr(fn.body), "CQMap(C(utensor.dom), C(utensor.cod), utensor.array)", {}, mod=CQ, node=fn, sig="classical")
    fn = m.func(CQ + ".CQMap.discard")
    arr = next((s.value for s in fn.body if isinstance(s, ast.Assign) and ast.unparse(s.targets[0]) == "array"), None)
    shape.match(ctx, "R12.1", CQ + ".CQMap.discard:array", arr, "Tensor.np.tensordot(Tensor.np.ones(dom.classical), Tensor.id(dom.quantum).array, 0)", {}, mod=CQ, node=fn, sig="discard-array",
                required="ones on the classical block (marginal) ⊗ identity pairing of the doubled quantum block (trace)")
    shape.match(ctx, "R12.1", CQ + ".CQMap.discard:type", ret_expr(fn.body[-1:]), "CQMap(dom, CQ(), array)", {}, mod=CQ, node=fn, sig="discard-type")
    # measure: comprehension arity and predicate
    fn = m.func(CQ + ".CQMap.measure")
    comps = [n for n in ast.walk(fn) if isinstance(n, ast.ListComp)]
    ctx.need(len(comps) == 2, "CQMap.measure: expected two comprehensions (destructive / non-destructive), found %d" % len(comps))
    rets = {}
    for s in ast.walk(fn):
        if isinstance(s, ast.Return) and isinstance(s.value, ast.Call) and ast.unparse(s.value.func) == "CQMap" and len(s.value.args) == 3 and ast.unparse(s.value.args[2]) == "array":
            rets[s.lineno] = s
    for comp in comps:
        ret = min((r for ln, r in rets.items() if ln > comp.lineno), key=lambda r: r.lineno, default=None)
        ctx.need(ret is not None, "CQMap.measure: comprehension not followed by a CQMap(...) return")
        typ = [ast.unparse(a) for a in ret.value.args[:2]]
        want = {("Q(dim)", "C(dim)"): 3, ("Q(dim)", "C(dim) @ Q(dim)"): 5}.get(tuple(typ))
        ctx.need(want is not None, "CQMap.measure returns an unexpected type %s" % typ)
        gens = comp.generators
        names = [g.target.id for g in gens if isinstance(g.target, ast.Name)]
        ranges_ok = all(ast.unparse(g.iter) == "range(dim[0])" and not g.ifs for g in gens)
        elt = comp.elt
        pred_ok = isinstance(elt, ast.Call) and ast.unparse(elt.func) == "int" and isinstance(elt.args[0], ast.Compare) and \
            all(isinstance(o, ast.Eq) for o in elt.args[0].ops) and sorted([ast.unparse(elt.args[0].left)] + [ast.unparse(c) for c in elt.args[0].comparators]) == sorted(names)
        tag = "destructive" if want == 3 else "non-destructive"
        ctx.ob("R12.1", "%s.CQMap.measure:%s:arity" % (CQ, tag), len(gens) == want and ranges_ok, found="%d indices over %s" % (len(gens), sorted({ast.unparse(g.iter) for g in gens})),
               required="%d indices (|udom| + |ucod| = 2 + %d), each over range(dim[0])" % (want, want - 2), mod=CQ, node=comp, sig="measure-arity-" + tag)
        ctx.ob("R12.1", "%s.CQMap.measure:%s:delta" % (CQ, tag), pred_ok, found=ast.unparse(elt), required="1 exactly when all indices are equal (squared magnitudes on the diagonal)", mod=CQ,
               node=comp, sig="measure-delta-" + tag)
    rec = [s for s in ast.walk(fn) if isinstance(s, ast.Return) and "CQMap.measure(dim[:1]" in ast.unparse(s)]
    shape.match(ctx, "R12.1", CQ + ".CQMap.measure:multi", rec[0].value if rec else None,
                "CQMap.measure(dim[:1], destructive=destructive) @ CQMap.measure(dim[1:], destructive=destructive)", {}, mod=CQ, node=fn, sig="measure-multi",
                required="several digits are measured one by one (tensor of single measurements)")
    fn = m.func(CQ + ".CQMap.encode")
    shape.match(ctx, "R12.1", CQ + ".CQMap.encode", ret_expr(fn.body), "CQMap.measure(dim, destructive=constructive).dagger()", {}, mod=CQ, node=fn, sig="encode", required="encode = measure†")
    for name, spec in (("id", "CQMap(dom, dom, utensor=utensor)"), ("dagger", "CQMap(self.cod, self.dom, utensor=self.utensor.dagger())"),
                       ("caps", "CQMap.cups(left, right).dagger()"),
                       ("cups", "CQMap.classical(Tensor.cups(left.classical, right.classical)) @ CQMap.pure(Tensor.cups(left.quantum, right.quantum))")):
        fn = m.func("%s.CQMap.%s" % (CQ, name))
        shape.match(ctx, "R12.1", "%s.CQMap.%s" % (CQ, name), ret_expr(fn.body[-1:]), spec, {}, mod=CQ, node=fn, sig=name)
    fn = m.func(CQ + ".CQMap.then")
    shape.match(ctx, "R12.1", CQ + ".CQMap.then", ret_expr(fn.body[-1:]), "CQMap(self.dom, other.cod, utensor=self.utensor >> other.utensor)", {}, mod=CQ, node=fn, sig="then",
                required="composition of the underlying tensors (checked by Tensor.then)")
    fn = m.func(CQ + ".CQMap.id")
    ut = next((s.value for s in fn.body if isinstance(s, ast.Assign) and ast.unparse(s.targets[0]) == "utensor"), None)
    shape.match(ctx, "R12.1", CQ + ".CQMap.id:utensor", ut, "Tensor.id(dom.classical @ dom.quantum @ dom.quantum)", {}, mod=CQ, node=fn, sig="id-utensor")


def check_tensor_network(ctx):
    m = ctx.model
    fn = m.func(CQ + ".CQMap.tensor")
    ctx.analysed(CQ + ".CQMap.tensor", CQ + ".CQMap.swap")

    def wires(tag):
        return [Atom(n + tag, 1) for n in ("c", "qa", "qb")]
    fd, gd, fc, gc = wires("0.dom"), wires("1.dom"), wires("0.cod"), wires("1.cod")
    W = lambda ats: Seq([Seg(a) for a in ats])
    f = Obj("Box", dom=W(fd), cod=W(fc))
    g = Obj("Box", dom=W(gd), cod=W(gc))
    ev = Ev(Facts(), CQ + ".CQMap.tensor")
    D = Obj("Factory", id=Closure(lambda t: TD(t, t)), swap=Closure(swap_contract))
    env = {"f": f, "g": g, "Diagram": D}
    found, probs = {}, []
    # the two stand-in boxes: three wires each (c, q, q')
    for name in ("f", "g"):
        st = next((s for s in fn.body if isinstance(s, ast.Assign) and ast.unparse(s.targets[0]) == name), None)
        ok = st is not None and isinstance(st.value, ast.Call) and ast.unparse(st.value.func) == "rigid.Box" and all(
            isinstance(a, ast.Call) and ast.unparse(a.func) == "Ty" and len(a.args) == 3 for a in st.value.args[1:3])
        ctx.ob("R12.2", "%s.CQMap.tensor:%s" % (CQ, name), ok, found=ast.unparse(st.value) if st else None, required="a stand-in box with three wires (c, q, q') on each side", mod=CQ, node=fn,
               sig="standin-" + name, trivial=True)
    for st in fn.body:
        if isinstance(st, ast.Assign) and isinstance(st.targets[0], ast.Name) and st.targets[0].id in ("above", "below"):
            try:
                found[st.targets[0].id] = ev.ev(st.value, env)
            except Unlocatable as e:
                probs.append((st.targets[0].id, str(e), "locatable slices of the stand-in types"))
            except (Unsupported, Undecided) as e:
                raise AnalysisError("CQMap.tensor outside the recognised idioms: %s" % e)
    ctx.need(set(found) | {p[0] for p in probs} == {"above", "below"}, "`above`/`below` networks not found in CQMap.tensor")
    for o in ev.obligations:
        if not o.ok:
            probs.append(("network-composes", o.found, o.required))
    if "above" in found:
        want_dom = W([fd[0], gd[0], fd[1], gd[1], fd[2], gd[2]])
        if found["above"].f["dom"] != want_dom or found["above"].f["cod"] != W(fd) + W(gd):
            probs.append(("above", "%r -> %r" % (found["above"].f["dom"], found["above"].f["cod"]), "%r -> %r" % (want_dom, W(fd) + W(gd))))
    if "below" in found:
        want_cod = W([fc[0], gc[0], fc[1], gc[1], fc[2], gc[2]])
        if found["below"].f["dom"] != W(fc) + W(gc) or found["below"].f["cod"] != want_cod:
            probs.append(("below", "%r -> %r" % (found["below"].f["dom"], found["below"].f["cod"]), "%r -> %r" % (W(fc) + W(gc), want_cod)))
    if probs:
        for what, fnd, req in probs:
            ctx.ob("R12.2", "%s.CQMap.tensor:%s" % (CQ, what), False, found=fnd, required=req, mod=CQ, node=fn, sig="network-" + what)
    else:
        ctx.ob("R12.2", CQ + ".CQMap.tensor:network", True, found="above: (c0 c1)(q0 q1)(q0' q1') -> (c0 q0 q0')(c1 q1 q1'); below: the converse", required="wire routing of the tensor of two CQ maps",
               mod=CQ, node=fn)
    r = ret_expr(fn.body[-1:])
    shape.match(ctx, "R12.2", CQ + ".CQMap.tensor:result", r, "CQMap(self.dom @ other.dom, self.cod @ other.cod, utensor=diagram2tensor(above >> f @ g >> below))", {}, mod=CQ, node=fn,
                sig="tensor-result")
    d2t = next((s.value for s in fn.body if isinstance(s, ast.Assign) and ast.unparse(s.targets[0]) == "diagram2tensor"), None)
    ctx.need(d2t is not None, "CQMap.tensor does not build diagram2tensor")
    ar = next((k.value for k in d2t.keywords if k.arg == "ar"), None)
    shape.match(ctx, "R12.2", CQ + ".CQMap.tensor:arrays", ar, "{f: self.utensor.array, g: other.utensor.array}", {}, mod=CQ, node=fn, sig="tensor-arrays",
                required="f stands for self, g for other")
    fn = m.func(CQ + ".CQMap.swap")
    ut = next((s.value for s in fn.body if isinstance(s, ast.Assign) and ast.unparse(s.targets[0]) == "utensor"), None)
    shape.match(ctx, "R12.2", CQ + ".CQMap.swap:utensor", ut, "Tensor.swap(left.classical, right.classical) @ Tensor.swap(left.quantum, right.quantum) @ Tensor.swap(left.quantum, right.quantum)", {},
                mod=CQ, node=fn, sig="swap-utensor", required="classical block swapped once, quantum block twice (both copies)")
    shape.match(ctx, "R12.2", CQ + ".CQMap.swap:type", ret_expr(fn.body[-1:]), "CQMap(left @ right, right @ left, utensor=utensor)", {}, mod=CQ, node=fn, sig="swap-type")
    tf = m.func(CQ + ".CQ.tensor")
    shape.match(ctx, "R12.2", CQ + ".CQ.tensor", ret_expr(tf.body[-1:]), "CQ(classical, quantum)", {}, body=None, mod=CQ, node=tf, sig="cq-tensor", required="classical and quantum dimensions are concatenated separately")


def check_dispatch(ctx):
    m = ctx.model
    q = CQ + ".Functor._ar"
    fn = m.func(q)
    ctx.analysed(q, CQ + ".Functor._ob", CQ + ".Functor.__init__")
    self_, p = fn.args.args[0].arg, fn.args.args[1].arg
    N = {self_: "F", p: "box"}
    br = dispatch.chain(m, CQ, fn, p)
    sh = dispatch.shadowed(m, br)
    ctx.ob("R12.3", q + ":no-shadowing", not sh, found=["%s after %s" % (d.q, s.q) for _, d, _, s in sh], required="specific mixed boxes before the generic cases", mod=CQ, node=fn, sig="shadow")

    def branch(name):
        k = m.resolve_class(CQ, name)
        return next((x for x in br if k is not None and k in x.classes), None)
    b = branch("Discard")
    shape.match(ctx, "R12.3", q + ":Discard", ret_expr(b.body) if b else None, "CQMap.discard(F(box.dom))", N, mod=CQ, node=b.node if b else fn, sig="discard")
    b = branch("MixedState")
    names = b.names if b else []
    ctx.ob("R12.3", q + ":MixedState,Encode:together", set(names) == {"MixedState", "Encode"}, found=names, required="MixedState and Encode are handled by the same branch", mod=CQ, node=b.node if b else fn,
           sig="partner-branch", trivial=True)
    shape.match(ctx, "R12.3", q + ":MixedState,Encode", ret_expr(b.body) if b else None, "F(box.dagger()).dagger()", N, mod=CQ, node=b.node if b else fn, sig="partner-dagger",
                required="the dagger of the image of the partner (Discard / Measure)")
    b = branch("Measure")
    ctx.need(b is not None, "cqmap.Functor._ar has no Measure branch")
    body = b.body
    first = next((s.value for s in body if isinstance(s, ast.Assign)), None)
    shape.match(ctx, "R12.3", q + ":Measure", first, "CQMap.measure(F(box.dom).quantum, destructive=box.destructive)", N, mod=CQ, node=b.node, sig="measure")
    # measurements that overwrite bits: the old bits are discarded exactly then (the classical input is empty otherwise)
    assigns = [s for s in body if isinstance(s, ast.Assign) and len(s.targets) == 1 and isinstance(s.targets[0], ast.Name)]
    ret = ret_expr(body)
    if len(assigns) == 2 and isinstance(ret, ast.Name) and assigns[0].targets[0].id == assigns[1].targets[0].id == ret.id:
        N2 = dict(N)
        N2[ret.id] = "measure"
        shape.match(ctx, "R12.3", q + ":Measure:override", assigns[1].value, ["measure @ CQMap.discard(C(F(box.dom).classical)) if box.override_bits else measure"], N2, mod=CQ, node=assigns[1], sig="measure-override",
                    required="tensored with the discarding of the bits of the domain exactly when the measurement overwrites them")
    else:
        shape.match(ctx, "R12.3", q + ":Measure:override", ret, ["CQMap.measure(F(box.dom).quantum, destructive=box.destructive) @ CQMap.discard(C(F(box.dom).classical)) if box.override_bits else CQMap.measure(F(box.dom).quantum, destructive=box.destructive)",
                                                                  "CQMap.measure(F(box.dom).quantum, destructive=box.destructive) @ CQMap.discard(C(F(box.dom).classical))"], N, body=body, mod=CQ, node=b.node, sig="measure-override",
                    required="tensored with the discarding of the bits of the domain exactly when the measurement overwrites them")
    # total over the mixed classes of circuit.py
    mixed = [c for c in m.classes.values() if c.mod == CIRC and m.cls(CIRC + ".Box") in m.mro(c) and c.name in ("Discard", "MixedState", "Measure", "Encode")]
    handled = {nm for x in br for nm in x.names}
    missing = sorted(c.name for c in mixed if c.name not in handled)
    ctx.ob("R12.3", q + ":total", not missing, found=sorted(handled), required="every mixed box class of circuit.py (Discard, MixedState, Measure, Encode) has a branch", mod=CQ, node=fn, sig="total")
    # generic cases, in order
    tests = [ast.unparse(s.test) for s in fn.body if isinstance(s, ast.If)]
    want_tail = ["not %s.is_mixed and %s.classical" % (p, p), "not %s.is_mixed" % p, "hasattr(%s, 'array')" % p]
    ctx.ob("R12.3", q + ":generic-order", tests[-3:] == want_tail, found=tests[-3:], required=want_tail, mod=CQ, node=fn, sig="generic-order")
    gens = [s for s in fn.body if isinstance(s, ast.If) and ast.unparse(s.test) in want_tail]
    if len(gens) == 3:
        shape.match(ctx, "R12.3", q + ":classical-pure", ret_expr(gens[0].body), "CQMap(F(box.dom), F(box.cod), box.array)", N, mod=CQ, node=gens[0], sig="classical-pure")
        shape.match(ctx, "R12.3", q + ":quantum-pure", ret_expr(gens[1].body), "CQMap.pure(Tensor(F(box.dom).quantum, F(box.cod).quantum, box.array))", N, body=gens[1].body, mod=CQ,
                    node=gens[1], sig="quantum-pure", required="pure quantum boxes are doubled")
        shape.match(ctx, "R12.3", q + ":mixed-array", ret_expr(gens[2].body), "CQMap(F(box.dom), F(box.cod), box.array)", N, mod=CQ, node=gens[2], sig="mixed-array",
                    required="a mixed box with an array is the classical-quantum map with that array, typed by the images of its domain and codomain")
    # _ar is the `ar` mapping of the functor: the dagger flag of a box is handled by cat.Functor.__call__ before the lookup (C04 R04.3)
    init = m.func(CQ + ".Functor.__init__")
    sup = next((c for c in ast.walk(init) if isinstance(c, ast.Call) and ast.unparse(c.func) == "super().__init__"), None)
    shape.match(ctx, "R12.3", CQ + ".Functor.__init__", sup, "super().__init__(self._ob, self._ar, ob_factory=CQ, ar_factory=CQMap)", {}, mod=CQ, node=init, sig="functor-init",
                required="_ob/_ar are the functor's mappings into CQ / CQMap (so daggered boxes go through cat.Functor's dagger branch)")
    ob = m.func(CQ + ".Functor._ob")
    src = ast.unparse(ob)
    ok = "isinstance(obj, Digit)" in src and "return C(Dim(obj.dim))" in src and "isinstance(obj, Qudit)" in src and "return Q(Dim(obj.dim))" in src
    ctx.ob("R12.3", CQ + ".Functor._ob", ok, found=src[-160:], required="digits -> C(dim), qudits -> Q(dim)", mod=CQ, node=ob, sig="ob")
    # ---- R12.5 Born rule
    b = branch("Scalar")
    ctx.need(b is not None, "cqmap.Functor._ar has no Scalar branch")
    sc = next((s.value for s in b.body if isinstance(s, ast.Assign)), None)
    shape.match(ctx, "R12.5", q + ":Scalar", sc, "box.array[0] if box.is_mixed else abs(box.array[0]) ** 2", N, mod=CQ, node=b.node, sig="born-rule",
                required="Born rule: a pure scalar z counts as |z|^2, a mixed scalar as itself")


    # which scalars are mixed: decided by abstract construction of the scalar classes (the flag the Born rule reads)
    from ..generic import instances
    from ..objsim import explore, RaisesError, Inst, Unsupported as SimUnsupported
    GATES_ = "discopy.quantum.gates"
    for cname, want in (("MixedScalar", True), ("Sqrt", False), ("Scalar", None)):
        c = m.cls("%s.%s" % (GATES_, cname))
        ctx.analysed(c.q + ".__init__")
        got, cases = set(), 0
        try:
            for label, build in instances(m, c):
                for oracle, res, sim in explore(m, lambda sim_, build=build: build(sim_)):
                    if isinstance(res, RaisesError) or not isinstance(res, Inst):
                        continue
                    cases += 1
                    v = res.attrs.get("_mixed")
                    if want is None:
                        exp = True if "is_mixed=True" in label else False
                        if v is not exp:
                            got.add("%s(%s) has is_mixed=%r" % (cname, label, v))
                    elif v is not want:
                        got.add("%s(%s) has is_mixed=%r" % (cname, label, v))
        except SimUnsupported as e:
            raise AnalysisError("%s.__init__ outside the recognised idioms: %s" % (c.q, e))
        ctx.need(cases > 0, "no instance of %s could be constructed" % c.q)
        ctx.ob("R12.5", c.q + ":mixedness", not got, found=sorted(got)[:2] or "is_mixed is %s in %d constructions" % ("the given flag (False by default)" if want is None else want, cases),
               required={True: "a MixedScalar is a mixed scalar (it counts as itself)", False: "a square root is a pure scalar (it counts as its squared magnitude)", None: "Scalar(z, is_mixed=b) carries the flag b; pure when the flag is not given"}[want],
               mod=GATES_, node=c.node, sig="scalar-mixedness:" + cname)


# ---------------------------------------------------------------------------------------------- R12.4 kinds
def kind_of_param(fn, name):
    kinds = set()
    for n in ast.walk(fn):
        if isinstance(n, ast.Attribute) and isinstance(n.value, ast.Name) and n.value.id == name and n.attr in ("classical", "quantum"):
            kinds.add("CQ")
        if isinstance(n, ast.Subscript) and isinstance(n.value, ast.Name) and n.value.id == name:
            kinds.add("Dim")
        if isinstance(n, ast.Call) and ast.unparse(n.func) in ("Q", "C", "len") and n.args and isinstance(n.args[0], ast.Name) and n.args[0].id == name:
            kinds.add("Dim")
    return kinds


def kind_of_arg(e, env):
    s = ast.unparse(e)
    if isinstance(e, ast.Name):
        return env.get(e.id)
    if isinstance(e, ast.Call) and ast.unparse(e.func) in ("self", "C", "Q", "CQ"):
        return "CQ"
    if isinstance(e, ast.Attribute) and e.attr in ("classical", "quantum"):
        return "Dim" if kind_of_arg(e.value, env) in ("CQ", None) else None
    if isinstance(e, ast.Attribute) and e.attr in ("dom", "cod") and ast.unparse(e.value) in ("utensor",):
        return "Dim"
    if isinstance(e, ast.Subscript) and isinstance(e.slice, ast.Slice):
        return kind_of_arg(e.value, env)
    return None


def check_kinds(ctx):
    m = ctx.model
    cq = m.cls(CQ + ".CQMap")
    sigs = {}
    for name, (fn, kind) in cq.methods.items():
        if kind != "static":
            continue
        for a in fn.args.args:
            ks = kind_of_param(fn, a.arg)
            if len(ks) == 1:
                sigs[(name, a.arg)] = next(iter(ks))
    ctx.need(sigs.get(("discard", "dom")) == "CQ" and sigs.get(("measure", "dim")) == "Dim", "kind inference lost its anchors: %s" % sigs)
    from .c01 import enumerate_fns
    n = 0
    for q, fn in enumerate_fns(m.modules[CQ]):
        env = {}
        cls_name = q.split(".")[0]
        if cls_name == "CQMap" and fn.name in cq.methods:
            for a in fn.args.args:
                if ("%s" % fn.name, a.arg) in sigs:
                    env[a.arg] = sigs[(fn.name, a.arg)]
        for c in ast.walk(fn):
            if isinstance(c, ast.Call) and ast.unparse(c.func).startswith("CQMap.") and ast.unparse(c.func)[6:] in cq.methods:
                meth = ast.unparse(c.func)[6:]
                callee = cq.methods[meth][0]
                params = [a.arg for a in callee.args.args]
                for a, pn in zip(c.args, params):
                    want = sigs.get((meth, pn))
                    got = kind_of_arg(a, env)
                    if want is None:
                        continue
                    if got is None and isinstance(a, ast.Name) and cls_name == "CQMap" and a.id in [x.arg for x in fn.args.args] and (fn.name, a.id) not in sigs:
                        sigs[(fn.name, a.id)] = want         # a parameter passed straight on: it must be of the callee's kind
                        got = want
                    if got is None:
                        raise AnalysisError("R12.4: cannot infer the kind of argument `%s` of CQMap.%s in %s" % (ast.unparse(a), meth, q))
                    ctx.ob("R12.4", "%s.%s:CQMap.%s(%s)" % (CQ, q, meth, ast.unparse(a)[:40]), got == want, found="a %s" % got, required="a %s (CQMap.%s reads %s)" % (
                        want, meth, ".classical/.quantum" if want == "CQ" else "the dimensions"), mod=CQ, node=c, sig="kind-%s-%s" % (meth, got))
                    n += 1
    return n


def check_circuit_side(ctx):
    m = ctx.model
    fn = m.func(CIRC + ".Circuit.get_counts")
    ctx.analysed(CIRC + ".Circuit.get_counts", CIRC + ".Circuit.measure", CIRC + ".Circuit.init_and_discard", CIRC + ".Circuit.is_mixed")
    src = ast.unparse(fn)
    ok = ("utensor, counts = (self.init_and_discard().eval(), dict())" in src or "utensor = self.init_and_discard().eval()" in src) and "counts[bits] = utensor.array[bits].real" in src and "index2bitstring(i, len(utensor.cod))" in src
    ctx.ob("R12.6", CIRC + ".Circuit.get_counts", ok, found=[l for l in src.split("\n") if "utensor" in l][:4], required="counts are the real parts of the evaluation of init_and_discard(), keyed by bitstring",
           mod=CIRC, node=fn, sig="get-counts")
    glp = next((s for s in ast.walk(fn) if isinstance(s, ast.For) and "index2bitstring" in ast.unparse(s)), None)
    ctx.need(glp is not None and isinstance(glp.target, ast.Name), "Circuit.get_counts: no loop over the outcomes")
    shape.match(ctx, "R12.6", CIRC + ".Circuit.get_counts:outcomes", glp.iter, "range(2 ** len(utensor.cod))", {}, mod=CIRC, node=glp, sig="get-counts-range", required="every outcome once: the indices below 2 ** (number of bits)")
    shape.match_stmts(ctx, "R12.6", CIRC + ".Circuit.get_counts:entry", glp.body, ["bits = index2bitstring(i, len(utensor.cod))", "if utensor.array[bits]:\n    counts[bits] = utensor.array[bits].real"], {glp.target.id: "i"},
                      mod=CIRC, node=glp, sig="get-counts-entry", exact=True, required="the probability of a bitstring is the entry of the evaluation at that bitstring (zero entries left out)")
    fn = m.func(CIRC + ".Circuit.measure")
    mb = next((s for s in fn.body if isinstance(s, ast.If) and ast.unparse(s.test) == "mixed or self.is_mixed"), None)
    shape.match(ctx, "R12.6", CIRC + ".Circuit.measure:mixed", ret_expr(mb.body) if mb else None, "self.init_and_discard().eval(mixed=True).array.real", {}, mod=CIRC, node=fn, sig="measure-mixed")
    # pure branch: the Born rule computed amplitude by amplitude
    rest = [s for s in fn.body if s is not mb and not isinstance(s, (ast.Import, ast.ImportFrom)) and not (isinstance(s, ast.Expr) and isinstance(s.value, ast.Constant))]
    # the same computation with the list of effects fused into the loop (one effect built per pass): read as the two-step form
    lp0 = next((s for s in rest if isinstance(s, ast.For)), None)
    if lp0 is not None and isinstance(lp0.target, ast.Name) and not any(isinstance(s, ast.Assign) and ast.unparse(s.targets[0]) == "effects" for s in rest) \
            and lp0.body and isinstance(lp0.body[0], ast.Assign) and isinstance(lp0.body[0].targets[0], ast.Name) and not lp0.orelse:
        j_, first = lp0.target.id, lp0.body[0]
        e_ = first.targets[0].id
        later = [x for s in lp0.body[1:] for x in ast.walk(s) if isinstance(x, ast.Name)]
        if not any(x.id == j_ for x in later) and not any(x.id == e_ and isinstance(x.ctx, ast.Store) for x in later):
            comp = ast.parse("effects = [X for %s in Y]" % j_).body[0]
            comp.value.elt, comp.value.generators[0].iter = first.value, lp0.iter
            new_lp = ast.For(target=ast.Name(id=e_, ctx=ast.Store()), iter=ast.Name(id="effects", ctx=ast.Load()), body=lp0.body[1:], orelse=[])
            for x in (comp, new_lp):
                ast.copy_location(x, lp0)
                ast.fix_missing_locations(x)
            k_ = rest.index(lp0)
            rest = rest[:k_] + [comp, new_lp] + rest[k_ + 1:]
    shape.match_stmts(ctx, "R12.6", CIRC + ".Circuit.measure:pure", [s for s in rest if isinstance(s, ast.Assign)],
                      ["state = (Ket(*len(self.dom) * [0]) >> self).eval()", "effects = [Bra(*index2bitstring(j, len(self.cod))).eval() for j in range(2 ** len(self.cod))]",
                       "array = Tensor.np.zeros(len(self.cod) * (2,) or (1,))"], mod=CIRC, node=fn, sig="measure-pure",
                      required="the state from all-zero inputs; one effect per bitstring of the length of the codomain; an accumulator with one axis per output")
    lp = next((s for s in rest if isinstance(s, ast.For)), None)
    ctx.need(lp is not None and isinstance(lp.target, ast.Name), "Circuit.measure: no loop over the effects")
    shape.match(ctx, "R12.6", CIRC + ".Circuit.measure:pure:effects", lp.iter, "effects", {}, mod=CIRC, node=lp, sig="measure-pure-loop")
    shape.match_stmts(ctx, "R12.6", CIRC + ".Circuit.measure:pure:born", lp.body, ["array += effect.array * Tensor.np.absolute((state >> effect).array) ** 2"], {lp.target.id: "effect"}, mod=CIRC, node=lp,
                      sig="measure-born", exact=True, required="each outcome weighted by the squared magnitude of its amplitude")
    shape.match(ctx, "R12.6", CIRC + ".Circuit.measure:pure:result", ret_expr(rest), "array", {}, mod=CIRC, node=fn, sig="measure-pure-result")
    fn = m.func(CIRC + ".Circuit.init_and_discard")
    src = ast.unparse(fn)
    ok = "Bits(0) if x.name == 'bit' else Ket(0) for x in circuit.dom" in src and "circuit = init >> circuit" in src and \
        "Discard() if x.name == 'qubit' else Id(bit) for x in circuit.cod" in src and "circuit = circuit >> discards" in src
    ctx.ob("R12.6", CIRC + ".Circuit.init_and_discard", ok, found=src[-260:], required="inputs initialised to 0 (bits and qubits), output qubits discarded, output bits kept", mod=CIRC, node=fn,
           sig="init-and-discard")
    fn = m.func(CIRC + ".Circuit.is_mixed")
    r = ret_expr(fn.body[-1:])
    shape.match(ctx, "R12.6", CIRC + ".Circuit.is_mixed", r, "self.dom.count(bit) and self.dom.count(qubit) or any((layer.cod.count(bit) and layer.cod.count(qubit) for layer in self.layers)) "
                "or any((box.is_mixed for box in self.boxes))", {}, body=fn.body, mod=CIRC, node=fn, sig="is-mixed",
                required="mixed as soon as one box is mixed or bits and qubits coexist on the domain or after any layer")
    # is_mixed (and the export of C13) count bits and qubits with Ty.count: the occurrences of the object of a one-wire type, or of an object
    from ..fold import fold as ffold, CannotFold, Stub, bind
    MON = "discopy.monoidal"
    tc = m.func(MON + ".Ty.count")
    ctx.analysed(MON + ".Ty.count")

    class TyV(tuple):
        pass
    self_c, obj_c = (a.arg for a in tc.args.args[:2])
    badc = []
    try:
        for objects in ((), ("a",), ("a", "b", "a"), ("b", "b")):
            for arg, want in ((TyV(("a",)), objects.count("a")), ("a", objects.count("a")), (TyV(("b",)), objects.count("b")), ("c", 0)):
                env_ = {self_c: Stub(_objects=objects, objects=list(objects)), obj_c: arg, "Ty": TyV, "isinstance": isinstance, "len": len, "sum": sum, "list": list, "tuple": tuple, "int": int}
                got = None
                try:
                    for st in tc.body:
                        if isinstance(st, ast.Expr) and isinstance(st.value, ast.Constant):
                            continue
                        if isinstance(st, ast.Assign) and len(st.targets) == 1:
                            bind(st.targets[0], ffold(st.value, env_), env_)
                        elif isinstance(st, ast.Return):
                            got = ffold(st.value, env_)
                            break
                        else:
                            raise CannotFold("statement %s" % ast.unparse(st)[:40])
                except (ValueError, TypeError, IndexError, KeyError) as e:
                    got = "raises %s" % type(e).__name__
                if got != want:
                    badc.append("Ty%s.count(%s) = %s, not %s" % (objects, "Ty%s" % (tuple(arg),) if isinstance(arg, TyV) else arg, got, want))
    except CannotFold as e:
        raise AnalysisError("Ty.count cannot be folded: %s" % e)
    ctx.ob("R12.6", MON + ".Ty.count", not badc, found=badc[:2] or "the number of occurrences, for objects and for one-wire types", required="count(x) = number of wires equal to x (x an object or a type of one wire)",
           mod=MON, node=tc, sig="ty-count")
    # get_counts and measure enumerate the outcomes through index2bitstring: every bitstring of the right length exactly once
    from ..fold import fold as ffold, CannotFold
    import itertools as _it
    ib = m.func(CIRC + ".index2bitstring")
    ctx.analysed(CIRC + ".index2bitstring")
    iv_, lv_ = (a.arg for a in ib.args.args[:2])
    badb = []
    try:
        for n_ in range(0, 5):
            got = []
            for i_ in range(2 ** n_):
                env_ = {iv_: i_, lv_: n_, "tuple": tuple, "map": lambda f, x: list(map(f, x)), "int": int, "str": str, "len": len, "bin": bin, "range": range, "reversed": lambda x: list(reversed(x)), "list": list}
                val = None
                for st in ib.body:
                    if isinstance(st, ast.Expr) and isinstance(st.value, ast.Constant):
                        continue
                    try:
                        ffold(st.test if isinstance(st, ast.If) else st.value if isinstance(st, ast.Return) else ast.Constant(0), env_)
                    except (ValueError, TypeError, IndexError, KeyError) as e:        # the folded expression itself fails on this input
                        val = "raises %s" % type(e).__name__
                        break
                    if isinstance(st, ast.If):
                        if ffold(st.test, env_):
                            last = st.body[-1]
                            if isinstance(last, ast.Raise):
                                val = "raises"
                                break
                            if isinstance(last, ast.Return):
                                val = ffold(last.value, env_)
                                break
                        continue
                    if isinstance(st, ast.Return):
                        val = ffold(st.value, env_)
                        break
                    raise CannotFold("statement %s" % ast.unparse(st)[:40])
                got.append(tuple(val) if isinstance(val, (list, tuple)) else val)
            if sorted(map(repr, got)) != sorted(map(repr, _it.product((0, 1), repeat=n_))):
                badb.append("length %d: %s" % (n_, got[:5]))
    except CannotFold as e:
        raise AnalysisError("index2bitstring cannot be folded: %s" % e)
    ctx.ob("R12.6", CIRC + ".index2bitstring", not badb, found=badb[:2] or "a bijection onto the bitstrings of each length 0..4", required="i -> the i-th bitstring of the given length: all of them, each once, "
           "with leading zeros (outcomes are enumerated through it)", mod=CIRC, node=ib, sig="index2bitstring")
    # which boxes count as classical (not doubled by the mixed functor): digits first, so that a box without wires (a stochastic weight) is classical
    bi = m.func(CIRC + ".Box.__init__")
    ctx.analysed(CIRC + ".Box.__init__")
    blk = next((s for s in bi.body if isinstance(s, ast.If) and ast.unparse(s.test) in ("not is_mixed", "is_mixed")), None)
    ctx.need(blk is not None, "circuit.Box.__init__ does not decide `classical` under `not is_mixed`")
    inner_ = blk.body if ast.unparse(blk.test) == "not is_mixed" else blk.orelse
    shape.match_stmts(ctx, "R12.3", CIRC + ".Box.__init__:classical", inner_,
                      ["if all((isinstance(x, Digit) for x in dom @ cod)):\n    self.classical = True\nelif all((isinstance(x, Qudit) for x in dom @ cod)):\n    self.classical = False\nelse:\n    raise ValueError('dom and cod should be Digits only or Qudits only.')"],
                      mod=CIRC, node=blk, sig="classical-flag", exact=True, required="pure boxes are classical when all their wires are digits (tested first: also when they have no wire), quantum when all are qudits, refused otherwise")
    # the mode is forwarded wherever the caller's options are
    n = 0
    for q in (CIRC + ".Circuit.eval", CIRC + ".Sum.eval"):
        f = m.func(q)
        ctx.analysed(q)
        for c in ast.walk(f):
            if isinstance(c, ast.Call) and isinstance(c.func, ast.Attribute) and c.func.attr == "eval" and any(k.arg is None for k in c.keywords):
                fwd = any(k.arg == "mixed" and ast.unparse(k.value) == "mixed" for k in c.keywords)
                n += 1
                ctx.ob("R12.6", "%s:%s" % (q, ast.unparse(c.func)), fwd, found=ast.unparse(c)[:100], required="an evaluation that forwards the caller's options forwards mixed=mixed as well (batches, sums, the backend shortcut)", mod=CIRC,
                       node=c, sig="mode:" + ast.unparse(c.func))
    ctx.need(n >= 4, "fewer than 4 forwarded evaluations in Circuit.eval / Sum.eval (%d)" % n)
    # swaps of two qubits (two bits) are pure boxes, a swap of a bit and a qubit is not: a pure circuit stays pure with swaps in it
    sw = m.func(CIRC + ".Swap.__init__")
    ctx.analysed(CIRC + ".Swap.__init__")
    bx = next((c for c in ast.walk(sw) if isinstance(c, ast.Call) and ast.unparse(c.func) == "Box.__init__"), None)
    mk = next((k.value for k in bx.keywords if k.arg == "is_mixed"), None) if bx is not None else None
    shape.match(ctx, "R12.6", CIRC + ".Swap.__init__:is_mixed", mk, ["left != right", "not left == right"], {sw.args.args[1].arg: "left", sw.args.args[2].arg: "right"}, mod=CIRC, node=sw, sig="swap-mixed",
                required="mixed exactly when the two wires are of different kinds")
    # a sum is evaluated in one mode: mixed as soon as one term is, so that the results can be added
    se = m.func(CIRC + ".Sum.eval")
    md = next((s.value for s in se.body if isinstance(s, ast.Assign) and ast.unparse(s.targets[0]) == "mixed"), None)
    shape.match(ctx, "R12.6", CIRC + ".Sum.eval:mode", md, ["mixed or any((t.is_mixed for t in self.terms))", "mixed or self.is_mixed"], {}, mod=CIRC, node=se, sig="sum-mode",
                required="the terms of a sum are evaluated in the same mode: mixed if asked for or if any term is mixed")
    sm = m.func(CIRC + ".Sum.is_mixed")
    shape.match(ctx, "R12.6", CIRC + ".Sum.is_mixed", ret_expr(sm.body), "any((circuit.is_mixed for circuit in self.terms))", {}, mod=CIRC, node=sm, sig="sum-is-mixed", required="a sum is mixed when one of its terms is")
    ce = m.func(CIRC + ".Circuit.eval")
    fa = next((s.value for s in ast.walk(ce) if isinstance(s, ast.Assign) and ast.unparse(s.targets[0]) == "functor"), None)
    shape.match(ctx, "R12.6", CIRC + ".Circuit.eval:mode", fa, ["cqmap.Functor() if mixed or self.is_mixed else tensor.Functor(lambda x: x[0].dim, lambda f: f.array)",
                                                                 "cqmap.Functor() if mixed or self.is_mixed else tensor.Functor(lambda x: x[-1].dim, lambda f: f.array)"], {}, mod=CIRC, node=ce, sig="circuit-mode",
                required="the classical-quantum functor when asked for or when the circuit is mixed, the tensor functor (dimension per wire, array per box) otherwise")
    # partner daggers used by the dispatch (Encode / MixedState evaluate as the dagger of their partner): exact rebuilds (shared with C02)
    from .c02 import check_daggers
    check_daggers(ctx, modules={CIRC}, rule="R12.3", kinds=("types", "involution", "raises", "not-a-box", "involution-raises"))


def check(ctx):
    ctx.rule("R12.1", "layouts of the CQMap constructors: c·q·q, pure = conj ⊗ u, measure = all-equal delta of the right arity, discard = ones ⊗ identity, encode/caps by dagger")
    ctx.rule("R12.2", "the swap network of CQMap.tensor routes (c0 c1)(q0 q1)(q0' q1') <-> (c0 q0 q0')(c1 q1 q1'); CQMap.swap is the triple of tensor swaps")
    ctx.rule("R12.3", "per-box dispatch of cqmap.Functor: order, totality over the mixed box classes, partner daggers, pure boxes doubled")
    ctx.rule("R12.4", "kind discipline {CQ, Dim}: every call of a CQMap constructor passes the kind of type the callee reads")
    ctx.rule("R12.5", "Born rule: pure scalar -> |z|^2, mixed scalar -> z")
    ctx.rule("R12.6", "is_mixed selects the functor; get_counts / measure read the real part of the evaluation of init_and_discard()")
    ctx.attempt(check_layouts, ctx)
    ctx.attempt(check_tensor_network, ctx)
    ctx.attempt(check_dispatch, ctx)
    ctx.attempt(check_kinds, ctx)
    ctx.attempt(check_circuit_side, ctx)
    ctx.floor("R12.1", 16)
    ctx.floor("R12.2", 8)
    ctx.floor("R12.3", 11)
    ctx.floor("R12.4", 6)
    ctx.not_decided += ["trace preservation of whole circuits", "numeric equality doubled = conj ⊗ pure on arbitrary circuits (follows from R12.1 + C09)"]
