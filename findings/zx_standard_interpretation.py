import numpy as np, math
from discopy import tensor
from discopy.rigid import PRO
from discopy.quantum import zx, CRz, CRx, CU1, Rz, Rx, CX, CZ, H, X, Y, Z, Ket, Id
from discopy.quantum.zx import circuit2zx
def spider(m, n, phase, colour):
    M = np.zeros((2**n, 2**m), dtype=complex); M[0,0] += 1; M[-1,-1] += np.exp(2j*np.pi*complex(phase))
    if colour == 'X':
        Hm = np.array([[1,1],[1,-1]])/math.sqrt(2)
        kp = lambda k: np.eye(1) if k == 0 else np.kron(kp(k-1), Hm)
        M = kp(n) @ M @ kp(m)
    return M.T.reshape((m+n)*(2,) or (1,))      # [in..., out...]
def ar(box):
    if isinstance(box, zx.Z): return spider(len(box.dom), len(box.cod), box.phase, 'Z')
    if isinstance(box, zx.X): return spider(len(box.dom), len(box.cod), box.phase, 'X')
    if isinstance(box, zx.Had): return (np.array([[1,1],[1,-1]])/math.sqrt(2)).reshape(2,2)
    if isinstance(box, zx.Scalar): return np.array(complex(box.data))
    raise TypeError(box)
F = tensor.Functor(ob=lambda t: 2, ar=ar)
def prop(a, b):
    a, b = a.flatten(), b.flatten(); i = np.argmax(abs(b)); k = a[i]/b[i]
    return abs(k) > 1e-9 and np.allclose(a, k*b)
for g in (Rz(.3), Rx(.3), CX, CZ, H, X, Y, Z, CRz(.3), CRx(.3), CU1(.3), Ket(0,1) >> CX >> Id(1) @ Rz(.2)):
    print(g, prop(F(circuit2zx(g)).array, g.eval().array))
